"""Two real ServiceDiscoveryProtocol stacks, each on its own virtual loop, a shared virtual clock and
a harness network with faults (loss windows, drop, duplication, delay / reordering, crash, restart,
graceful stop / start).  Used by C04."""
import asyncio
import heapq

from . import annenv, sdenv
from .sdenv import cfg as config, hdr, sd
from .vloop import VLoop

NODE_ADDR = {"srv": ("192.0.2.201", 30490), "wat": ("192.0.2.202", 30490)}
RNODE = {v: k for k, v in NODE_ADDR.items()}


class StepLoop(VLoop):
    """a VLoop that never advances time itself: when nothing is left to do at the current instant it
    stops; the coordinator moves all nodes to the next instant"""

    def __init__(self):
        super().__init__()
        self._selector = _StepSelector(self)

    def next_time(self):
        cands = []
        sched = [h for h in self._scheduled if not h._cancelled]
        if sched:
            cands.append(min(h._when for h in sched))
        if self._inject:
            cands.append(self._inject[0][0])
        return min(cands) if cands else None

    def run_now(self):
        """run everything that is due at the current virtual instant"""
        asyncio.set_event_loop(self)
        self.run_forever()


class _StepSelector:
    def __init__(self, loop):
        self.loop = loop

    def select(self, timeout):
        loop = self.loop
        inj = loop._inject
        out = []
        while inj and inj[0][0] <= loop._now:
            out.append(heapq.heappop(inj)[3])
        if not out and timeout != 0:
            loop._stopping = True          # idle at this instant
        return out

    def close(self):
        pass


class Node:
    def __init__(self, net, name, t0):
        self.net, self.name = net, name
        self.loop = StepLoop()
        self.loop._now = float(t0)
        self.alive = True
        asyncio.set_event_loop(self.loop)
        self.prot = sd.ServiceDiscoveryProtocol(sdenv.MC, timings=net.timings)
        self.prot.transport = sdenv.FakeTransport(lambda data, addr: net.send(self, data, addr), NODE_ADDR[name])
        # a stack that has been up for a long time: its outgoing session counters (multicast and towards the peer) have already
        # wrapped once (reboot flag cleared) and are about to wrap again
        for _ in range(net.burn if net.first_boot.get(name, True) else 0):
            self.prot.session_storage.assign_outgoing(None)
            self.prot.session_storage.assign_outgoing(NODE_ADDR["wat" if name == "srv" else "srv"])
        net.first_boot[name] = False
        self.inst = None
        if name == "srv":
            service = sdenv.service("s1", eventgroups=frozenset([1]), options_1=(sdenv.EP["e1"],))
            self.inst = sd.ServiceInstance(service, _SrvL(net), self.prot.announcer, self.prot.timings)
            self.prot.announcer.announce_service(self.inst)
        else:
            eg = config.Eventgroup(service_id=0x1111, instance_id=sdenv.ANY16, major_version=sdenv.ANY8, eventgroup_id=1,
                                   sockname=("192.0.2.202", 41001), protocol=hdr.L4Protocols.UDP)
            self.prot.discovery.watch_all_services(_WatL(net))
            self.prot.discovery.find_subscribe_eventgroup(eg)
            self.eg_any = eg
            if net.two_subs:     # a second, overlapping auto-subscription (concrete instance): withdrawing one of them leaves the other
                import dataclasses
                self.prot.discovery.find_subscribe_eventgroup(dataclasses.replace(eg, instance_id=1))

    def call(self, fn):
        self.loop.inject(self.loop._now, fn)


class _SrvL(sd.ServerServiceListener):
    def __init__(self, net):
        self.net = net

    def client_subscribed(self, subscription, source):
        self.net.emit(k="out", op="subscribed", node="srv", src=RNODE.get(tuple(source[:2]), "?"))

    def client_unsubscribed(self, subscription, source):
        self.net.emit(k="out", op="unsubscribed", node="srv", src=RNODE.get(tuple(source[:2]), "?"))


class _WatL(sd.ClientServiceListener):
    def __init__(self, net):
        self.net = net

    def service_offered(self, service, source):
        self.net.emit(k="out", op="offered", node="wat", svc=sdenv.svc_name(service), src=RNODE.get(tuple(source[:2]), "?"))

    def service_stopped(self, service, source):
        self.net.emit(k="out", op="stopped", node="wat", svc=sdenv.svc_name(service), src=RNODE.get(tuple(source[:2]), "?"))


class Net:
    def __init__(self, tc, sub_ttl, refresh, burn=0, two_subs=False):
        self.burn = burn
        self.two_subs = two_subs
        self.first_boot = {}
        self.timings = sdenv.timings(INITIAL_DELAY_MIN=tc["initMin"], INITIAL_DELAY_MAX=tc["initMax"], REPETITIONS_MAX=tc["reps"],
                                     REPETITIONS_BASE_DELAY=tc["base"], CYCLIC_OFFER_DELAY=tc["cyclic"], ANNOUNCE_TTL=tc["annTTL"],
                                     SEND_COLLECTION_TIMEOUT=tc["collect"], REQUEST_RESPONSE_DELAY_MIN=tc["rrMin"],
                                     REQUEST_RESPONSE_DELAY_MAX=tc["rrMax"], SUBSCRIBE_TTL=sub_ttl,
                                     SUBSCRIBE_REFRESH_INTERVAL=refresh or None, FIND_TTL=3)
        self.now = 0
        self.ev = []
        self.nodes = {}
        self.loss = False
        self.pending_fault = None      # one-shot fault applied to the next datagram: ("drop",) / ("dup",) / ("delay", d)
        self.wire = 0
        sd.random = _Rand()

    def emit(self, **e):
        e["t"] = int(self.now)
        self.ev.append(e)

    def boot(self, name):
        n = Node(self, name, self.now)
        self.nodes[name] = n
        n.call(n.prot.start)
        return n

    def send(self, sender, data, addr):
        if not sender.alive:
            return
        self.wire += 1
        mc = addr is None or tuple(addr[:2]) == sdenv.MC
        try:
            what = [[en["ty"], en["ttl"]] for m in sdenv.abs_sd(data) for en in m["es"]]
        except Exception:
            what = []
        self.emit(k="out", op="wire", node=sender.name, mc=mc, es=what, lost=bool(self.loss))
        targets = [x for x in ("srv", "wat") if x != sender.name] if mc else [RNODE.get(tuple(addr[:2]))]
        fault = None
        if self.pending_fault is not None:
            fault, self.pending_fault = self.pending_fault, None
            self.emit(k="in", op="fault", kind=fault[0] + "_applied")
        if self.loss or (fault and fault[0] == "drop"):
            return
        copies = 2 if fault and fault[0] == "dup" else 1
        delay = fault[1] if fault and fault[0] == "delay" else 0
        for tname in targets:
            for _ in range(copies):
                self._deliver(tname, sender.name, bytes(data), mc, self.now + delay)

    def _deliver(self, tname, sname, data, mc, when):
        def go():
            node = self.nodes.get(tname)
            if node is None or not node.alive:
                return
            try:
                node.prot.datagram_received(data, NODE_ADDR[sname], multicast=mc)
            except Exception as exc:
                self.emit(k="exc", what="datagram_received raised %r" % (exc,))
        self._later.append((when, tname, go))

    # ------------------------------------------------------------------ faults
    def fault(self, f):
        kind = f["kind"]
        self.emit(k="in", op="fault", kind=kind, node=f.get("node", ""), **({"d": f["d"]} if "d" in f else {}))
        if kind == "crash":
            n = self.nodes.pop(f["node"], None)
            if n:
                n.alive = False
                n.loop.shutdown()
        elif kind == "restart":
            if f["node"] not in self.nodes:
                self.boot(f["node"])
        elif kind == "stop":
            n = self.nodes.get(f["node"])
            if n:
                n.call(n.prot.stop)
        elif kind == "start":
            n = self.nodes.get(f["node"])
            if n:
                n.call(n.prot.start)
        elif kind == "unfind":      # the application withdraws ONE of its two auto-subscriptions
            n = self.nodes.get("wat")
            if n:
                n.call(lambda: n.prot.discovery.stop_find_subscribe_eventgroup(n.eg_any))
        elif kind == "loss_on":
            self.loss = True
        elif kind == "loss_off":
            self.loss = False
        elif kind in ("drop", "dup"):
            self.pending_fault = (kind,)
        elif kind == "delay":
            self.pending_fault = ("delay", f["d"])

    # ------------------------------------------------------------------ coordinator
    def run(self, faults, t_end):
        self._later = []
        faults = sorted(faults, key=lambda f: f["t"])
        fi = 0
        self.boot("srv")
        self.boot("wat")
        guard = 0
        while True:
            # everything that happens at instant self.now, to quiescence
            while True:
                guard += 1
                if guard > 200000:
                    raise RuntimeError("two-node run does not settle")
                while fi < len(faults) and faults[fi]["t"] <= self.now:
                    self.fault(faults[fi])
                    fi += 1
                due = [x for x in self._later if x[0] <= self.now]
                self._later = [x for x in self._later if x[0] > self.now]
                for _, tname, go in due:
                    node = self.nodes.get(tname)
                    if node and node.alive:
                        node.call(go)
                progressed = bool(due)
                for node in list(self.nodes.values()):
                    node.loop._now = float(self.now)
                    before = (len(self.ev), self.wire)
                    node.loop.run_now()
                    for c in node.loop.exceptions:
                        self.emit(k="exc", what=repr(c.get("exception") or c.get("message"))[:120])
                    node.loop.exceptions.clear()
                    progressed = progressed or before != (len(self.ev), self.wire)
                if not progressed and not any(x[0] <= self.now for x in self._later) and \
                        not (fi < len(faults) and faults[fi]["t"] <= self.now):
                    break
            self.emit(k="idle")
            cands = [n.loop.next_time() for n in self.nodes.values()] + [x[0] for x in self._later]
            if fi < len(faults):
                cands.append(faults[fi]["t"])
            cands = [c for c in cands if c is not None and c > self.now]
            nxt = min(cands) if cands else t_end
            if nxt >= t_end:
                self.now = t_end
                self.emit(k="idle")
                break
            self.now = nxt
        ev = list(self.ev)          # (closing a loop finalises pending coroutines: their finally blocks still send -- not part of the run)
        for n in self.nodes.values():
            n.alive = False
            n.loop.shutdown()
        import random
        sd.random = random
        return ev


class _Rand:
    def uniform(self, lo, hi):
        return lo

    def __getattr__(self, name):
        import random
        return getattr(random, name)
