"""check driver plumbing: context, violations / known findings, evidence files."""
import json
import os
import sys
import time

ROOT = os.path.dirname(os.path.dirname(os.path.abspath(__file__)))
EVID = os.path.join(ROOT, "evidence")
REPLAYS = os.path.join(ROOT, "out", "replays")
FINDINGS = os.path.join(ROOT, "KNOWN_FINDINGS.jsonl")


class Machinery(Exception):
    """the check itself is broken (exit 2) -- never reported as a violation"""


def load_findings():
    known = []
    if os.path.exists(FINDINGS):
        for line in open(FINDINGS):
            line = line.strip()
            if not line or line.startswith("#") or line.startswith("fixed:"):
                continue
            known.append(json.loads(line))
    return known


def _matches(pattern, diag):
    for k, v in pattern.items():
        if diag.get(k) != v:
            return False
    return True


class Ctx:
    def __init__(self, prop, tier, seed):
        self.prop, self.tier, self.seed = prop, tier, seed
        self.t0 = time.time()
        self.violations = []     # (diag, replay path)
        self.known = []          # (finding, diag)
        self.notes = []
        self.cov = {}
        self._known = [f for f in load_findings() if f.get("property") == prop]
        self._nrep = 0
        import glob
        for f in glob.glob(os.path.join(REPLAYS, "%s-%s-*.json" % (prop, tier))):
            os.remove(f)

    @property
    def quick(self):
        return self.tier == "quick"

    def pick(self, quick, thorough):
        return quick if self.quick else thorough

    def note(self, msg):
        self.notes.append(msg)
        print("NOTE " + msg, flush=True)

    def violation(self, diag, payload):
        """diag: dict with at least 'clause'; payload: JSON-able replay content"""
        for f in self._known:
            if _matches(f["match"], diag):
                if not any(k[0] is f for k in self.known):
                    print("KNOWN-FINDING: property=%s %s" % (self.prop, f["what"]), flush=True)
                self.known.append((f, diag))
                return
        if len(self.violations) >= 25:
            self.violations.append((diag, None))
            return
        os.makedirs(REPLAYS, exist_ok=True)
        self._nrep += 1
        path = os.path.join(REPLAYS, "%s-%s-%d-%d.json" % (self.prop, self.tier, self.seed, self._nrep))
        with open(path, "w") as fh:
            json.dump({"property": self.prop, "diag": diag, "payload": payload}, fh, indent=1, default=str)
        self.violations.append((diag, path))
        print("VIOLATION property=%s replay=%s" % (self.prop, path), flush=True)
        print("  diag: " + json.dumps(diag, default=str)[:400], flush=True)

    def finish(self, level, coverage, assumptions=()):
        os.makedirs(EVID, exist_ok=True)
        cov = dict(coverage)
        cov.setdefault("samples", [])
        cov["samples"] = _trim(cov["samples"])
        ev = {"property_id": self.prop, "tier": self.tier, "seed": self.seed, "level": level,
              "coverage": cov, "assumptions": list(assumptions), "wall_s": round(time.time() - self.t0, 2),
              "violations": len(self.violations), "known_findings": len(self.known), "notes": self.notes[:20]}
        tmp = os.path.join(EVID, self.prop + ".json.tmp")
        with open(tmp, "w") as fh:
            json.dump(ev, fh, indent=1, default=str)
        os.replace(tmp, os.path.join(EVID, self.prop + ".json"))
        return 1 if self.violations else 0


def _trim(samples, limit=6000):
    out = []
    for s in samples[:4]:
        txt = json.dumps(s, default=str)
        if len(txt) > limit:
            s = {"truncated": txt[:limit]}
        out.append(s)
    return out
