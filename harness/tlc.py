"""Thin runner around TLC: per-run scratch directory, output parsing, batching helpers."""
import json
import os
import re
import shutil
import subprocess
import tempfile
import time

ROOT = os.path.dirname(os.path.dirname(os.path.abspath(__file__)))
SPEC = os.path.join(ROOT, "spec")
OUT = os.path.join(ROOT, "out")
JAR = "/opt/veriftools/tla/tla2tools.jar:/opt/veriftools/tla/CommunityModules-deps.jar"


class TLCError(Exception):
    pass


class Result:
    def __init__(self):
        self.stdout = ""
        self.generated = 0
        self.distinct = 0
        self.depth = 0
        self.violated = None      # name of violated invariant / property
        self.error = None         # other error text
        self.prints = []          # PrintT tuples/values as raw strings
        self.wall = 0.0
        self.coverage = {}        # action -> (distinct, total) with -coverage
        self.trace = []           # counterexample states (raw text)
        self.timeout = False

    @property
    def ok(self):
        return self.violated is None and self.error is None and not self.timeout


def scratch(prefix="run"):
    os.makedirs(OUT, exist_ok=True)
    return tempfile.mkdtemp(prefix=prefix + "-", dir=OUT)


def _stage(d, extra_modules=None):
    for f in os.listdir(SPEC):
        if f.endswith(".tla"):
            shutil.copy(os.path.join(SPEC, f), os.path.join(d, f))
    for name, text in (extra_modules or {}).items():
        with open(os.path.join(d, name), "w") as fh:
            fh.write(text)


def cfg_text(path_or_text):
    p = os.path.join(SPEC, "cfg", path_or_text)
    if "\n" not in path_or_text and os.path.exists(p):
        return open(p).read()
    return path_or_text


_ACT = re.compile(r"^<(\w+) line \d+, col \d+ to line \d+, col \d+ of module (\w+)>: (\d+):(\d+)")


def parse(res, out):
    res.stdout = out
    m = None
    for m in re.finditer(r"(\d+) states generated, (\d+) distinct states found", out):
        pass
    if m:
        res.generated, res.distinct = int(m.group(1)), int(m.group(2))
    m = re.search(r"The depth of the complete state graph search is (\d+)", out)
    if m:
        res.depth = int(m.group(1))
    m = re.search(r"Invariant (\S+) is violated", out)
    if m:
        res.violated = m.group(1)
    m = re.search(r"Action property (\S+) is violated|Temporal properties were violated", out)
    if m and not res.violated:
        res.violated = m.group(1) or "temporal"
    if res.violated is None:
        m = re.search(r"Error: (.*)", out)
        if m and "Invariant" not in m.group(1):
            # collect the error paragraph
            res.error = out[m.start(): m.start() + 1500]
    if "Deadlock reached" in out and res.violated is None:
        res.violated = "Deadlock"
        res.error = None
    for line in out.splitlines():
        a = _ACT.match(line)
        if a:
            res.coverage[a.group(1)] = (int(a.group(3)), int(a.group(4)))
    # counterexample
    if res.violated:
        res.trace = re.findall(r"State \d+: <.*?>\n(.*?)(?=\nState \d+:|\n\d+ states generated|\Z)", out, re.S)
    return res


def run(module, cfg, workers=16, timeout=600, env=None, extra_modules=None, args=(), keep=False,
        deadlock=False, simulate=None, depth=None, seed=None, dfs=False, coverage=False):
    """Run TLC on spec/<module>.tla with the given cfg (file name under spec/cfg or literal text)."""
    d = scratch(module)
    try:
        _stage(d, extra_modules)
        with open(os.path.join(d, module + ".cfg"), "w") as fh:
            fh.write(cfg_text(cfg))
        cmd = ["java", "-XX:+UseParallelGC", "-Xmx8g", "-Xss256m"]
        if dfs:
            cmd.append("-Dtlc2.tool.queue.IStateQueue=StateDeque")
        cmd += ["-cp", JAR, "tlc2.TLC", "-workers", str(workers), "-metadir", os.path.join(d, "meta"),
                "-noGenerateSpecTE", "-config", module + ".cfg"]
        if not deadlock:
            cmd.append("-deadlock")
        if coverage:
            cmd += ["-coverage", "1"]
        if simulate:
            cmd += ["-simulate", simulate]
        if depth:
            cmd += ["-depth", str(depth)]
        if seed is not None:
            cmd += ["-seed", str(seed)]
        cmd += list(args) + [module]
        e = dict(os.environ)
        e.update(env or {})
        t0 = time.time()
        res = Result()
        try:
            p = subprocess.run(cmd, cwd=d, env=e, stdout=subprocess.PIPE, stderr=subprocess.STDOUT,
                               timeout=timeout, text=True)
            out = p.stdout
        except subprocess.TimeoutExpired as ex:
            out = (ex.stdout or b"")
            if isinstance(out, bytes):
                out = out.decode("utf8", "replace")
            res.timeout = True
        res.wall = time.time() - t0
        parse(res, out)
        res.prints = _prints(out)
        return res
    finally:
        if not keep:
            shutil.rmtree(d, ignore_errors=True)


def _prints(out):
    """PrintT output lines: everything that looks like a TLA+ tuple <<...>> at line start."""
    res = []
    buf = None
    depth = 0
    for line in out.splitlines():
        if buf is None:
            if line.startswith("<<"):
                buf = line
                depth = line.count("<<") - line.count(">>")
                if depth <= 0:
                    res.append(buf)
                    buf = None
        else:
            buf += "\n" + line
            depth += line.count("<<") - line.count(">>")
            if depth <= 0:
                res.append(buf)
                buf = None
    return res


def tla_str(s):
    return '"' + s.replace("\\", "\\\\").replace('"', '\\"') + '"'


def to_tla(v):
    """Python value -> TLA+ expression text (for literal constants in generated modules)."""
    if isinstance(v, bool):
        return "TRUE" if v else "FALSE"
    if isinstance(v, int):
        return str(v)
    if isinstance(v, str):
        return tla_str(v)
    if isinstance(v, (list, tuple)):
        return "<<" + ", ".join(to_tla(x) for x in v) + ">>"
    if isinstance(v, (set, frozenset)):
        return "{" + ", ".join(to_tla(x) for x in sorted(v, key=repr)) + "}"
    if isinstance(v, dict):
        if not v:
            return "<<>>"
        return "[" + ", ".join("%s |-> %s" % (k, to_tla(x)) for k, x in v.items()) + "]"
    raise TypeError(v)


def sany(module_path):
    p = subprocess.run(["java", "-cp", JAR, "tla2sany.SANY", os.path.basename(module_path)],
                       cwd=os.path.dirname(module_path), stdout=subprocess.PIPE, stderr=subprocess.STDOUT, text=True)
    ok = p.returncode == 0 and "Semantic errors" not in p.stdout and "***Parse Error***" not in p.stdout \
        and "Fatal errors" not in p.stdout
    return ok, p.stdout
