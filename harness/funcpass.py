"""Functional mode: TLC evaluates a TLA+ functional specification on recorded calls of the
implementation (one record = input + observed outcome) and returns a verdict string per record."""
import json
import os
import re
import shutil
import concurrent.futures as cf

from . import tlc

RUNNER = """---- MODULE FuncRun ----
EXTENDS %(mod)s, Json, IOUtils
Recs == ndJsonDeserialize(IOEnv.TRACE_FILE)
VARIABLE fr_i
FR_Init == fr_i \\in 1..Len(Recs)
FR_Next == UNCHANGED fr_i
FR_Report == PrintT(<<"REC", fr_i, %(op)s(Recs[fr_i])>>)
FR_Spec == FR_Init /\\ [][FR_Next]_fr_i
====
"""
CFG = "SPECIFICATION FR_Spec\nCONSTRAINT FR_Report\nCHECK_DEADLOCK FALSE\n"
_R = re.compile(r'<<\s*"REC",\s*(\d+),\s*"([^"]*)"\s*>>')


def _chunk(args):
    mod, op, path, n, timeout = args
    res = tlc.run("FuncRun", CFG, workers=2, timeout=timeout, env={"TRACE_FILE": path},
                  extra_modules={"FuncRun.tla": RUNNER % {"mod": mod, "op": op}})
    out = {}
    for p in res.prints:
        m = _R.match(p.replace("\n", " "))
        if m:
            out[int(m.group(1))] = m.group(2)
    if len(out) != n:
        raise tlc.TLCError("functional pass %s!%s: %d verdicts for %d records\n%s" % (mod, op, len(out), n, res.stdout[-3000:]))
    return out, res.distinct


def _clean(x):
    """JSON values TLC's Json module cannot read (null) are replaced"""
    if x is None:
        return ""
    if isinstance(x, dict):
        return {k: _clean(v) for k, v in x.items()}
    if isinstance(x, (list, tuple)):
        return [_clean(v) for v in x]
    return x


def run(mod, op, records, jobs=8, timeout=1200):
    """-> (list of verdict strings ("" = agrees with the specification), states evaluated)"""
    if not records:
        return [], 0
    d = tlc.scratch("func")
    try:
        jobs = max(1, min(jobs, (len(records) + 199) // 200))
        parts = [[] for _ in range(jobs)]
        for k, r in enumerate(records):
            parts[k % jobs].append((k, r))
        work = []
        for j, part in enumerate(parts):
            path = os.path.join(d, "rec%d.ndjson" % j)
            with open(path, "w") as fh:
                for _, r in part:
                    fh.write(json.dumps(_clean(r)) + "\n")
            work.append((mod, op, path, len(part), timeout))
        out = [None] * len(records)
        states = 0
        with cf.ThreadPoolExecutor(max_workers=jobs) as ex:
            for part, (verdicts, distinct) in zip(parts, ex.map(_chunk, work)):
                states += distinct
                for k, (idx, _) in enumerate(part):
                    out[idx] = verdicts[k + 1]
        return out, states
    finally:
        shutil.rmtree(d, ignore_errors=True)
