"""Mode 3: evaluate a TLA+ property monitor (spec/Mon_*.tla) over traces recorded from the real code.

The monitor is a pure fold  MonInit(cfg), MonStep(m, e)  with a sticky verdict  m.bad / m.at.
TLC evaluates it: one behaviour per trace, one state per event; the verdict of every trace is
printed from a state constraint when the last event has been consumed.
"""
import json
import os
import re
import concurrent.futures as cf

from . import tlc

RUNNER = """---- MODULE MonRun ----
EXTENDS %(mon)s, Json, IOUtils
Traces == ndJsonDeserialize(IOEnv.TRACE_FILE)
VARIABLES tid, l, m
Init == /\\ tid \\in 1..Len(Traces) /\\ l = 1 /\\ m = MonInit(Traces[tid].cfg)
Next == /\\ l <= Len(Traces[tid].ev)
        /\\ m' = MonStep(m, Traces[tid].ev[l]) /\\ l' = l + 1 /\\ UNCHANGED tid
Report == (l = Len(Traces[tid].ev) + 1) => PrintT(<<"VERDICT", tid, m.bad, m.at, l>>)
Spec == Init /\\ [][Next]_<<tid, l, m>>
====
"""
CFG = "SPECIFICATION Spec\nCONSTRAINT Report\nCHECK_DEADLOCK FALSE\n"

_V = re.compile(r'<<\s*"VERDICT",\s*(\d+),\s*"([^"]*)",\s*(-?\d+),\s*(\d+)\s*>>')     # (TLC wraps long tuples over several lines)


def _chunk(args):
    mon, path, n, timeout = args
    res = tlc.run("MonRun", CFG, workers=1, timeout=timeout, env={"TRACE_FILE": path},
                  extra_modules={"MonRun.tla": RUNNER % {"mon": mon}})
    verdicts = {}
    for p in res.prints:
        m = _V.match(p.replace("\n", " "))
        if m:
            verdicts[int(m.group(1))] = (m.group(2), int(m.group(3)))
    if len(verdicts) != n:
        raise tlc.TLCError("monitor pass %s: %d verdicts for %d traces\n%s" % (mon, len(verdicts), n, res.stdout[-3000:]))
    return verdicts, res.distinct, res.wall


def add_adv(events):
    """synthesise adv(d) events between consecutive events with different time stamps"""
    out = []
    now = 0
    for e in events:
        t = e.get("t", now)
        if t > now:
            out.append({"k": "adv", "d": t - now, "t": t})
            now = t
        out.append(e)
    return out


def run(mon, traces, jobs=8, timeout=900, tag="mon"):
    """traces: list of {"cfg":..., "ev":[...]} -> list of (bad, at) in the same order; bad == "" means OK."""
    if not traces:
        return [], 0
    d = tlc.scratch(tag)
    try:
        jobs = max(1, min(jobs, (len(traces) + 49) // 50))
        parts = [[] for _ in range(jobs)]
        for i, t in enumerate(traces):
            parts[i % jobs].append((i, t))
        work = []
        for j, part in enumerate(parts):
            path = os.path.join(d, "tr%d.ndjson" % j)
            with open(path, "w") as fh:
                for _, t in part:
                    fh.write(json.dumps({"cfg": t["cfg"], "ev": t["ev"]}) + "\n")
            work.append((mon, path, len(part), timeout))
        out = [None] * len(traces)
        states = 0
        with cf.ThreadPoolExecutor(max_workers=jobs) as ex:
            for part, (verdicts, distinct, _) in zip(parts, ex.map(_chunk, work)):
                states += distinct
                for k, (i, _) in enumerate(part):
                    out[i] = verdicts[k + 1]
        return out, states
    finally:
        import shutil
        shutil.rmtree(d, ignore_errors=True)
