"""C01: SOME/IP message encoding round-trips and matches the wire layout; concatenated messages
are delivered one by one.  Wire.tla is the oracle (TLC evaluates every recorded call)."""
import itertools
import random

from .. import codec, funcpass, tlc
from ..framework import Machinery
from ..sdenv import hdr, sd


def boundary_domain():
    ids = [0, 1, 255, 256, 32767, 32768, 65534, 65535]
    for sid, mid, cid, sess, iv, mt, rc, pl in itertools.product([0, 65535, 4660], [1, 33024], [0, 65535], ids, [0, 1, 255],
                                                                 codec.MT, [0, 1, 10], [b"", b"\x00", b"\xff\x01"]):
        yield hdr.SOMEIPHeader(service_id=sid, method_id=mid, client_id=cid, session_id=sess, interface_version=iv,
                               message_type=hdr.SOMEIPMessageType(mt), return_code=hdr.SOMEIPReturnCode(rc), payload=pl)


def rec_build(m):
    b, out = codec.attempt(m.build)
    return {"op": "build", "msg": codec.msg_j(m), "out": out, "bytes": list(b or b"")}


def rec_parse(data):
    r, out = codec.attempt(hdr.SOMEIPHeader.parse, data)
    rec = {"op": "parse", "input": list(data), "out": out, "msg": {}, "rest": []}
    if r is not None:
        rec["msg"], rec["rest"] = codec.msg_j(r[0]), list(r[1])
    return rec


class Capture(sd.SOMEIPDatagramProtocol):
    def __init__(self):
        super().__init__()
        self.got = []

    def message_received(self, someip_message, addr, multicast):
        self.got.append(codec.msg_j(someip_message))


def rec_dgram(data):
    p = Capture()
    _, out = codec.attempt(p.datagram_received, data, ("192.0.2.9", 30490), False)
    return {"op": "dgram", "input": list(data), "out": out, "msgs": p.got}


def notification_datagrams(rng, n):
    """datagrams the library itself assembles from several messages: the notifications of an eventgroup with 1..5 events"""
    import someip.service as service
    from ..vloop import FakeTransport, new_loop
    out = []
    for _ in range(n):
        loop = new_loop()
        sent = []

        class Svc(service.SimpleService):
            service_id = rng.choice([0x1111, 0xFFFE, 1])
            version_major = rng.choice([1, 0, 0xFE])
            version_minor = 0
        values = {ev: rng.randbytes(rng.choice([0, 1, 3, 9, 40])) for ev in rng.sample(range(1, 0x7FFF), rng.randint(1, 5))}

        async def go():
            svc = Svc(1)
            svc.transport = FakeTransport(lambda d, a: sent.append(bytes(d)))
            eg = service.SimpleEventgroup(svc, id=1)
            eg.values = dict(values)
            svc.register_eventgroup(eg)
            eg.subscribe(hdr.IPv4EndpointOption(__import__("ipaddress").IPv4Address("192.0.2.77"), hdr.L4Protocols.UDP, 40000))
            for _ in range(4):
                await __import__("asyncio").sleep(0)
        loop.run_until_complete(go())
        loop.shutdown()
        for data in sent:
            r = rec_dgram(data)
            r["sent"] = [codec.msg_j(hdr.SOMEIPHeader(service_id=Svc.service_id, method_id=0x8000 | ev, client_id=0, session_id=i + 1,
                                                      interface_version=Svc.version_major, message_type=hdr.SOMEIPMessageType.NOTIFICATION,
                                                      payload=values[ev])) for i, ev in enumerate(values)]
            out.append(r)
    return out


def records(ctx):
    rng = random.Random("c01/%s" % ctx.seed)
    recs = notification_datagrams(rng, ctx.pick(40, 400))
    dom = list(boundary_domain())
    for m in (rng.sample(dom, 2500) if ctx.quick else dom):
        recs.append(rec_build(m))
    for i in range(ctx.pick(600, 12000)):
        m = codec.rand_msg(rng, big=(i % ctx.pick(60, 60) == 0))
        recs.append(rec_build(m))
        b = m.build()
        suffix = rng.choice([b"", b"\x00", rng.randbytes(3), rng.randbytes(rng.randint(1, 40))])
        recs.append(rec_parse(b + suffix))
        if i % 3 == 0:          # near-valid: every small length value and the neighbours of the true length
            true = len(m.payload) + 8
            for ln in list(range(0, 10)) + [true - 1, true + 1, true + 65536, 0xFFFFFFFF]:
                if 0 <= ln <= 0xFFFFFFFF and len(b) < 400:
                    recs.append(rec_parse(b[:4] + ln.to_bytes(4, "big") + b[8:] + suffix))
        if i % 5 == 0:
            k = rng.randint(0, len(b))
            recs.append(rec_parse(b[:k]))                       # every kind of truncation
    for i in range(ctx.pick(300, 5000)):
        msgs = [codec.rand_msg(rng, big=(i % 97 == 0 and j == 0)) for j in range(rng.randint(1, 6))]
        data = b"".join(m.build() for m in msgs)
        if i % 4 == 1:
            data += rng.randbytes(rng.randint(1, 20))           # garbage after the last message
        if i % 4 == 2:
            data = data[: rng.randint(0, len(data))]
        recs.append(rec_dgram(data))
    return recs


def check(ctx):
    res = tlc.run("MC_Wire", "Wire.cfg", timeout=1200)
    if res.error or res.timeout:
        raise Machinery("TLC failed on MC_Wire: %s" % (res.error or "timeout")[:500])
    if res.violated:
        ctx.violation({"clause": "design:" + res.violated, "source": "TLC laws"}, {"trace": res.trace})
    recs = records(ctx)
    verdicts, st = funcpass.run("Wire", "MsgVerdict", recs, jobs=12)
    bad = 0
    for r, v in zip(recs, verdicts):
        if v:
            bad += 1
            slim = dict(r)
            for k in ("input", "bytes"):
                if k in slim and len(slim[k]) > 600:
                    slim[k + "_len"], slim[k] = len(slim[k]), slim[k][:64]
            ctx.violation({"clause": v, "source": "SOMEIPHeader." + r["op"],
                           "plen": len(r.get("msg", {}).get("payload", [])) if r.get("msg") else None}, {"record": slim})
    cov = dict(states=res.distinct, transitions=res.generated, traces_validated_against_impl=len(recs) - bad, records=len(recs),
               record_states=st, builds=sum(r["op"] == "build" for r in recs), parses=sum(r["op"] == "parse" for r in recs),
               datagrams=sum(r["op"] == "dgram" for r in recs),
               big_payloads=sum(1 for r in recs if r["op"] == "build" and len(r["msg"]["payload"]) > 60000),
               exhaustive=not ctx.quick,
               samples=[{k: (v if k != "bytes" else v[:24]) for k, v in recs[0].items()},
                        {k: (v if k not in ("input",) else v[:40]) for k, v in next(r for r in recs if r["op"] == "dgram").items()
                         if k != "msgs"}],
               rule="TLC: round-trip / length / concatenation / truncation laws of Wire.tla on 31932 enumerated boundary values; "
                    "real code: the boundary domain of messages built and compared byte for byte with Wire!EncMsg, random "
                    "full-range messages incl. payloads around 64 KiB, parse with suffixes, every small length-field value and "
                    "the neighbours of the true length, truncations, 1-6 messages per datagram through datagram_received")
    return ctx.finish("model_checking", cov)


def replay(ctx, rep):
    r = rep["payload"]["record"]
    if r["op"] == "build":
        rec = rec_build(codec.msg_obj(r["msg"])) if "payload" in r["msg"] and len(r["msg"]["payload"]) == r.get("plen", len(r["msg"]["payload"])) else None
    elif "input_len" in r:
        rec = None
    else:
        rec = rec_parse(bytes(r["input"])) if r["op"] == "parse" else rec_dgram(bytes(r["input"]))
    if rec is None:
        print("replay: record was truncated for storage; re-run ./check C01 with the same seed")
        return 2
    v, _ = funcpass.run("Wire", "MsgVerdict", [rec])
    if v[0]:
        ctx.violation({"clause": v[0], "source": "replay"}, {"record": rec})
    print("replay: %s" % ("violation reproduced" if v[0] else "no violation on the current tree"))
    return 1 if v[0] else 0
