"""C10: offer lifecycle (wait / repetition / cyclic phases, StopOffer, nothing after it)."""
from .. import annenv, monpass, sdenv
from . import anngen
from .common import Mode1, judge

INSTS = ["I1", "I2"]


def simple_service_probe(ctx):
    """stop an already stopped announcer / stop through the SimpleService helper: must not raise"""
    import someip.service as service
    st = sdenv.Stack(tim=annenv.timings(anngen.TIMINGS["A"]))
    out = []

    class Svc(service.SimpleService):
        service_id = 0x1111
        version_major = 1
        version_minor = 0

    def go():
        svc = Svc(1)
        svc.transport = sdenv.FakeTransport(lambda d, a: None, ("192.0.2.50", 30500))
        ann = st.prot.announcer
        steps = [("SimpleService.start_announce", lambda: svc.start_announce(ann)),
                 ("announcer.start", ann.start),
                 ("SimpleService.stop_announce", lambda: svc.stop_announce(ann)),
                 ("announcer.stop", ann.stop),
                 ("announcer.stop (second time)", ann.stop)]
        for name, fn in steps:
            try:
                fn()
            except Exception as exc:
                out.append((name, repr(exc)))
    st.loop.inject(0, go)
    st.finish(3)
    for name, exc in out:
        ctx.violation({"clause": "exception", "source": "helper probe", "call": name, "what": exc[:80]},
                      {"probe": "simple_service", "call": name, "exception": exc})
    return len(out)


def scale_traces():
    """many instances started and stopped together: their offers / StopOffers share collection windows and exceed one
    1400-byte datagram"""
    out = []
    for n, v in ((60, "B"), (95, "B"), (95, "F")):
        insts = annenv.many_instances(n)
        tc = anngen.TIMINGS[v]
        sched = [{"t": 0, "j": 0, "op": "ann_start"}, {"t": 9, "j": 1, "op": "ann_stop"}, {"t": 11, "j": 0, "op": "ann_start"},
                 {"t": 11, "j": 0, "op": "ann_stop"}]
        rand = [0] * (4 * n)
        ev, _ = annenv.run_schedule(sched, tc, insts, ann0=insts, rand=list(rand))
        cfg = annenv.mon_cfg(tc, insts, insts)
        cfg["dsts"] = ["mc", "a1", "a2", "a3", "a4", "a5"]
        out.append({"cfg": cfg, "ev": monpass.add_adv(ev), "sched": sched, "variant": v, "ann0": insts, "rand": rand, "insts": insts,
                    "diag": {"variant": v, "family": "%d instances" % n}})
    return out


def failed_send_traces():
    """one transmission fails (the transport raises after the datagram was handed over): the following offers and the StopOffer go out"""
    out = []
    for v in ("B", "F"):
        tc = anngen.TIMINGS[v]
        for k in (0, 1, 2, 3):
            insts = ["I1", "I2"]
            sched = [{"t": 0, "j": 0, "op": "ann_start"}, {"t": 14, "j": 0, "op": "ann_stop"}]
            rand = [0] * 8
            ev, _ = annenv.run_schedule(sched, tc, insts, ann0=insts, rand=list(rand), send_failures=[k])
            cfg = annenv.mon_cfg(tc, insts, insts)
            cfg["dsts"] = ["mc", "a1", "a2", "a3", "a4", "a5"]
            out.append({"cfg": cfg, "ev": monpass.add_adv(ev), "sched": sched, "variant": v, "ann0": insts, "rand": rand, "insts": insts,
                        "fails": [k], "diag": {"variant": v, "family": "transmission %d fails" % k}})
    return out


def check(ctx):
    m1 = Mode1(ctx, "MC_Ann")
    for v in (["C10_A", "C10_B"] if ctx.quick else ["C10_A", "C10_B", "C10_C", "C10_D"]):
        m1.holds(v, "C10_quick.cfg", {"C10_A": v})
    if not ctx.quick:
        m1.holds("C10_B, 5 inputs", "C10_quick.cfg", {"C10_A": "C10_B", "MaxEv = 3": "MaxEv = 5"}, timeout=3000)
        m1.holds("C10_A, 5 inputs", "C10_quick.cfg", {"MaxEv = 3": "MaxEv = 5"}, timeout=3000)
    for sw in ["SwD4", "SwD5", "SwD6"]:
        m1.caught(sw, "C10_quick.cfg")
    traces = anngen.run(ctx.seed, ctx.pick(360, 6000), ctx.pick(7, 10), INSTS, list("ABCDEF"), tag="c10")
    # an instance constructed with a Timings object of its own (another ANNOUNCE_TTL than the stack's)
    own = anngen.run(ctx.seed, ctx.pick(60, 600), ctx.pick(7, 10), ["I1", "I7"], list("ABCF"), tag="c10o")
    # the application queues its stop() with call_soon: it runs among the library's own callbacks of the next iteration
    dq = anngen.run(ctx.seed, ctx.pick(120, 1500), ctx.pick(7, 10), INSTS, list("ABDF"), tag="c10q", defer_share=0.5)
    bad, ms = judge(ctx, "Mon_C10", traces + own + dq + scale_traces() + failed_send_traces() + anngen.raising_listener_family(), "announcer histories", anngen.payload)
    sim = anngen.spec_to_code_ann(ctx, "Mon_C10", "[C10_A EXCEPT !.randVals = {0}]", "C10_Inputs", "A", ["I1"], ["I1"], ctx.pick(25, 400))
    probes = simple_service_probe(ctx)
    acc, total = anngen.conform_by_variant(ctx, traces, ctx.pick(120, 1200))
    accq, totalq = anngen.conform_by_variant(ctx, dq, ctx.pick(30, 300))
    acc, total = acc + accq, total + totalq
    cov = dict(states=m1.states, transitions=m1.trans, traces_validated_against_impl=acc, monitor_traces=len(traces),
               monitor_failures=bad, monitor_states=ms, conformance_traces=total, spec_drift=total - acc,
               tlc_runs=m1.runs, helper_probe_failures=probes, exhaustive=False, **sim,
               samples=[{"variant": traces[0]["variant"], "schedule": traces[0]["sched"], "trace": traces[0]["ev"][:24]}],
               rule="TLC: announcer part of SD.tla (offer task with the exact hop structure, collector, find answers) x "
                    "Mon_C10, all schedules of 3(-4) inputs {start, stop (also of a stopped announcer), unicast/multicast "
                    "find} at every tick and iteration position, four timing configurations; real code: seeded histories "
                    "in six timing configurations incl. stop/start in one iteration, two instances, connection loss")
    return ctx.finish("model_checking", cov)


def replay(ctx, rep):
    p = rep["payload"]
    if p.get("probe"):
        n = simple_service_probe(ctx)
        print("replay: %s" % ("violation reproduced" if n else "no violation on the current tree"))
        return 1 if n else 0
    if any(i.startswith("M") for i in p.get("insts", [])):
        annenv.many_instances(100)
    bad, _ = judge(ctx, "Mon_C10", [anngen.rerun(p)], "replay", anngen.payload)
    print("replay: %s" % ("violation reproduced" if bad else "no violation on the current tree"))
    return 1 if bad else 0
