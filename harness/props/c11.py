"""C11: every unicast Subscribe gets exactly one correct Ack / Nack."""
from . import anngen
from .common import Mode1, judge

INSTS = ["I1", "I2", "I3"]


def check(ctx):
    m1 = Mode1(ctx, "MC_Ann")
    m1.holds("collect 0", "C11_quick.cfg")
    if not ctx.quick:
        m1.holds("collect 1", "C11_quick.cfg", {"C06_A": "C06_B"}, timeout=3000)
        m1.holds("collect 0, 5 inputs", "C11_quick.cfg", {"MaxEv = 3": "MaxEv = 5"}, timeout=3000)
    m1.caught("SwAck", "C11_quick.cfg")
    traces = anngen.run(ctx.seed, ctx.pick(360, 6000), ctx.pick(8, 12), INSTS, list("ABDF"), tag="c11",
                        with_sub=True, with_find=False, stop_twice=False)
    bad, ms = judge(ctx, "Mon_C11", traces + anngen.sub_lifecycle_family(), "subscribe histories", anngen.payload)
    sim = anngen.spec_to_code_ann(ctx, "Mon_C11", "C06_B", "C11_Inputs", "B0", ["I1"], ["I1"], ctx.pick(20, 300))
    acc, total = anngen.conform_by_variant(ctx, traces, ctx.pick(100, 1000))
    cov = dict(states=m1.states, transitions=m1.trans, traces_validated_against_impl=acc, monitor_traces=len(traces),
               monitor_failures=bad, monitor_states=ms, conformance_traces=total, spec_drift=total - acc, tlc_runs=m1.runs, **sim,
               subscribes=sum(1 for t in traces for i in t["sched"] if i["op"] == "rx" for e in i["es"] if e["ty"] == "sub"),
               exhaustive=False,
               samples=[{"variant": traces[0]["variant"], "schedule": traces[0]["sched"][:6], "trace": traces[0]["ev"][:20]}],
               rule="TLC: handle_subscribe of SD.tla x Mon_C11 over Subscribe / StopSubscribe entries (declared and undeclared "
                    "eventgroup, accepted and rejected counter, other service, multicast, reboot evidence) x start/stop, 3 "
                    "inputs at every position; real code: three instances (one with wildcard ids), four services, several "
                    "entries per message, endpoint sets of size 0..2, extra options, collect 0/1")
    return ctx.finish("model_checking", cov)


def replay(ctx, rep):
    bad, _ = judge(ctx, "Mon_C11", [anngen.rerun(rep["payload"])], "replay", anngen.payload)
    print("replay: %s" % ("violation reproduced" if bad else "no violation on the current tree"))
    return 1 if bad else 0
