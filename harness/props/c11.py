"""C11: every unicast Subscribe gets exactly one correct Ack / Nack."""
from . import anngen
from .common import Mode1, judge

INSTS = ["I1", "I2", "I3"]


def failed_ack_traces():
    """the datagram with the first acknowledgement fails to leave (the transport raises): later Subscribes are answered all the same"""
    from .. import annenv, monpass
    out = []
    tc = anngen.TIMINGS["B0"]
    sub = {"ty": "sub", "svc": "s1", "eg": 1, "ctr": 0, "eps": ["e1"], "opts": [], "acc": True, "ttl": 3}
    for k in (1, 2):
        sched = [{"t": 0, "j": 0, "op": "ann_start"}]
        for n, t in enumerate((2, 4, 6, 8)):
            sched.append({"t": t, "j": 0, "op": "rx", "src": "a1", "mc": False, "sid": n + 1, "rb": True, "uc": True, "es": [dict(sub, eg=1 + n % 2)]})
        rand = [0] * 4
        ev, _ = annenv.run_schedule(sched, tc, ["I1"], ann0=["I1"], rand=list(rand), t_extra=14, send_failures=[k])
        cfg = annenv.mon_cfg(tc, ["I1"], ["I1"])
        cfg["dsts"] = ["mc", "a1", "a2", "a3", "a4", "a5"]
        out.append({"cfg": cfg, "ev": monpass.add_adv(ev), "sched": sched, "variant": "B0", "ann0": ["I1"], "rand": rand, "insts": ["I1"],
                    "t_extra": 14, "fails": [k], "diag": {"variant": "B0", "family": "transmission %d fails" % k}})
    return out


def check(ctx):
    m1 = Mode1(ctx, "MC_Ann")
    m1.holds("collect 0", "C11_quick.cfg")
    if not ctx.quick:
        m1.holds("collect 1", "C11_quick.cfg", {"C06_A": "C06_B"}, timeout=3000)
        m1.holds("collect 0, 5 inputs", "C11_quick.cfg", {"MaxEv = 3": "MaxEv = 5"}, timeout=3000)
    m1.caught("SwAck", "C11_quick.cfg")
    traces = anngen.run(ctx.seed, ctx.pick(360, 6000), ctx.pick(8, 12), INSTS, list("ABDF"), tag="c11",
                        with_sub=True, with_find=False, stop_twice=False)
    bad, ms = judge(ctx, "Mon_C11", traces + anngen.sub_lifecycle_family() + failed_ack_traces(), "subscribe histories", anngen.payload)
    sim = anngen.spec_to_code_ann(ctx, "Mon_C11", "C06_B", "C11_Inputs", "B0", ["I1"], ["I1"], ctx.pick(20, 300))
    acc, total = anngen.conform_by_variant(ctx, traces, ctx.pick(100, 1000))
    cov = dict(states=m1.states, transitions=m1.trans, traces_validated_against_impl=acc, monitor_traces=len(traces),
               monitor_failures=bad, monitor_states=ms, conformance_traces=total, spec_drift=total - acc, tlc_runs=m1.runs, **sim,
               subscribes=sum(1 for t in traces for i in t["sched"] if i["op"] == "rx" for e in i["es"] if e["ty"] == "sub"),
               exhaustive=False,
               samples=[{"variant": traces[0]["variant"], "schedule": traces[0]["sched"][:6], "trace": traces[0]["ev"][:20]}],
               rule="TLC: handle_subscribe of SD.tla x Mon_C11 over Subscribe / StopSubscribe entries (declared and undeclared "
                    "eventgroup, accepted and rejected counter, other service, multicast, reboot evidence) x start/stop, 3 "
                    "inputs at every position; real code: three instances (one with wildcard ids), four services, several "
                    "entries per message, endpoint sets of size 0..2, extra options, collect 0/1")
    return ctx.finish("model_checking", cov)


def replay(ctx, rep):
    bad, _ = judge(ctx, "Mon_C11", [anngen.rerun(rep["payload"])], "replay", anngen.payload)
    print("replay: %s" % ("violation reproduced" if bad else "no violation on the current tree"))
    return 1 if bad else 0
