"""C17: event notifications reach exactly the current subscribers, correctly addressed.
Drives a real SimpleService + SimpleEventgroup (client_subscribed / client_unsubscribed, values,
notify_once with different iterable kinds, cyclic rounds) on the virtual loop."""
import ipaddress
import random

from .. import conform, monpass, sdenv, tlc
from ..sdenv import hdr, sd
from ..vloop import FakeTransport, new_loop
from .common import Mode1, conformance, judge

SVC_ID, MAJOR = 0x1111, 1
EPS = ["e1", "e2", "e3"]
EVENTS = [1, 2]


def sub_obj(eps, eg=1):
    return sd.EventgroupSubscription(service_id=SVC_ID, instance_id=1, major_version=MAJOR, id=eg, counter=0, ttl=5,
                                     endpoints=frozenset(sdenv.EP[e] for e in eps))


def run_schedule(sched, interval, events, values0, burn=None, dns=0):
    import someip.service as service
    loop = new_loop()
    loop.dns_yields = dns
    rec = sdenv.Recorder(loop)

    def on_send(data, addr):
        while data:
            try:
                h, data = hdr.SOMEIPHeader.parse(data)
            except Exception as exc:
                rec.emit(k="exc", what="undecodable notification %r" % exc)
                return
            rec.emit(k="out", op="ntx", dst=sdenv.addr_name(addr), sid=h.session_id, mid=h.method_id, ev=h.method_id & 0x7FFF,
                     val=h.payload[0] if len(h.payload) == 1 else -1, svc=h.service_id, iv=h.interface_version,
                     mt=int(h.message_type), rc=int(h.return_code), cid=h.client_id)

    class Svc(service.SimpleService):
        service_id = SVC_ID
        version_major = MAJOR
        version_minor = 0
    box = {}

    def create():
        svc = Svc(1)
        svc.transport = FakeTransport(on_send)
        eg = service.SimpleEventgroup(svc, id=1, interval=interval or None)
        for ev in events:
            eg.values[ev] = bytes([values0[ev]])
        svc.register_eventgroup(eg)
        box["svc"], box["eg"] = svc, eg
        for ep, n in (burn or {}).items():
            for _ in range(n):
                svc.session_storage.assign_outgoing(("2001:db8::13", 40003, 0, 0) if ep == "e3" else sdenv.ADDR[ep])

    def do(inp):
        op = inp["op"]
        ev = {k: x for k, x in inp.items() if k not in ("t", "j", "form")}
        if op == "eg_notify":
            inp = dict(inp, form=inp.get("form", "iter" if inp.get("oneshot") else "list"))
            ev["oneshot"] = inp["form"] in ("iter", "gen")
        rec.emit(k="in", **ev)
        try:
            if op == "eg_create":
                create()
            elif op == "eg_sub":
                box["svc"].client_subscribed(sub_obj([inp["ep"]]), sdenv.ADDR["a1"])
            elif op == "eg_unsub":
                box["svc"].client_unsubscribed(sub_obj([inp["ep"]]), sdenv.ADDR["a1"])
            elif op == "eg_set":
                box["eg"].values[inp["ev"]] = bytes([inp["val"]])
            elif op == "eg_replace":      # the application assigns a whole new mapping to the public attribute
                box["eg"].values = {e: bytes([v]) for e, v in inp["vals"]}
            elif op == "eg_notify":
                evs = list(inp["evs"])
                form = inp.get("form", "list")
                arg = {"list": evs, "tuple": tuple(evs), "iter": iter(evs), "gen": (x for x in evs),
                       "keys": {x: 0 for x in evs}.keys()}[form]
                box["eg"].notify_once(arg)
            elif op == "eg_badsub":
                try:
                    if inp["kind"] == "unknown_eventgroup":
                        box["svc"].client_subscribed(sub_obj(["e1"], eg=9), sdenv.ADDR["a1"])
                    else:
                        box["svc"].client_subscribed(sub_obj({"none": [], "two": ["e1", "e2"]}[inp["kind"]]), sdenv.ADDR["a1"])
                except sd.NakSubscription:
                    rec.emit(k="out", op="nak")
        except sd.NakSubscription:
            rec.emit(k="out", op="nak")
        except Exception as exc:
            rec.emit(k="exc", what="%s raised %r" % (op, exc))
    tmax = 0
    for inp in sched:
        loop.inject(inp["t"], (lambda i=inp: do(i)), inp.get("j", 0))
        tmax = max(tmax, inp["t"])
    loop.run_to(tmax + 2 * (interval or 1) + 2)
    rec.flush_exceptions()
    ev = list(rec.ev)
    loop.shutdown()
    return ev


def gen(rng, n, interval):
    from .anngen import positions
    sched = [{"t": 0, "j": 0, "op": "eg_create"}]
    subs = set()
    for (t, j) in positions(rng, n, gaps=(0, 0, 0, 1, 1, 2, 3)):
        r = rng.random()
        if r < 0.4:
            ep = rng.choice(EPS)
            if ep in subs:
                subs.discard(ep)
                sched.append({"t": t, "j": j, "op": "eg_unsub", "ep": ep})
            else:
                subs.add(ep)
                sched.append({"t": t, "j": j, "op": "eg_sub", "ep": ep})
        elif r < 0.6:
            sched.append({"t": t, "j": j, "op": "eg_set", "ev": rng.choice(EVENTS), "val": rng.randint(1, 200)})
        elif r < 0.63 and len(subs) < len(EPS):      # a second StopSubscribe / one for an endpoint that never subscribed: no effect
            sched.append({"t": t, "j": j, "op": "eg_unsub", "ep": rng.choice([e for e in EPS if e not in subs])})
        elif r < 0.66:
            sched.append({"t": t, "j": j, "op": "eg_badsub", "kind": rng.choice(["none", "two", "unknown_eventgroup"])})
        elif interval == 0:
            evs = rng.choice([[1], [2], [1, 2], [2, 1]])
            sched.append({"t": t, "j": j, "op": "eg_notify", "evs": evs, "form": rng.choice(["list", "tuple", "iter", "gen", "keys"])})
        else:
            sched.append({"t": t, "j": j, "op": "eg_set", "ev": rng.choice(EVENTS), "val": rng.randint(1, 200)})
    return sched


def crowd_traces():
    """one subscriber stays while more than a thousand others come and go: its session ids keep counting"""
    out = []
    for n in (80, 1100):
        qs = sdenv.endpoints(n)
        sched = [{"t": 0, "j": 0, "op": "eg_create"}, {"t": 0, "j": 1, "op": "eg_sub", "ep": "e1"},
                 {"t": 1, "j": 0, "op": "eg_notify", "evs": [1]}]
        for i, q in enumerate(qs):
            sched.append({"t": 2 + i, "j": 0, "op": "eg_sub", "ep": q})
            sched.append({"t": 2 + i, "j": 2, "op": "eg_unsub", "ep": q})
        sched.append({"t": 3 + n, "j": 0, "op": "eg_notify", "evs": [1, 2]})
        ev = run_schedule(sched, 0, EVENTS, {1: 7, 2: 9})
        out.append({"cfg": mon_cfg(0), "ev": monpass.add_adv(ev), "sched": sched, "interval": 0, "burn": {}, "dns": 0,
                    "diag": {"interval": 0, "family": "%d subscribers come and go" % n}})
    return out


def replace_traces():
    """the application replaces `values` as a whole (other keys, other order) at the beginning of a tick of its own -- before the first
    cyclic round, in the tick of a round, between two rounds; afterwards a further subscriber (initial notification with the new
    events), an update of a new event and several more rounds"""
    out = []
    for interval in (2, 3):
        for vals in ([[1, 11], [2, 12], [3, 13]], [[2, 12]], [[2, 12], [1, 11]], [[3, 13]], [[1, 11], [2, 12]]):
            for t_rep in (1, interval, interval + 1, 2 * interval):
                for n_before in (1, 2):
                    sched = [{"t": 0, "j": 0, "op": "eg_create"}, {"t": 0, "j": 1, "op": "eg_sub", "ep": "e1"}]
                    if n_before == 2:
                        sched.append({"t": 0, "j": 2, "op": "eg_sub", "ep": "e2"})
                    sched.append({"t": t_rep, "j": 0, "op": "eg_replace", "vals": vals})
                    sched.append({"t": t_rep + 1, "j": 1, "op": "eg_set", "ev": vals[-1][0], "val": 99})
                    sched.append({"t": t_rep + 2, "j": 1, "op": "eg_sub", "ep": "e3"})
                    sched.append({"t": t_rep + 2 + 2 * interval, "j": 1, "op": "eg_unsub", "ep": "e1"})
                    ev = run_schedule(sched, interval, EVENTS, {1: 7, 2: 9})
                    out.append({"cfg": mon_cfg(interval), "ev": monpass.add_adv(ev), "sched": sched, "interval": interval, "burn": {}, "dns": 0,
                                "diag": {"interval": interval, "family": "values replaced as a whole at t=%d: %s" % (t_rep, vals)}})
    return out


def mon_cfg(interval):
    return {"events": EVENTS, "values0": [7, 9], "interval": interval, "svc": SVC_ID, "major": MAJOR, "maxId": 65535}


def traces_for(seed, count, length):
    out = []
    for n in range(count):
        rng = random.Random("c17/%s/%s" % (seed, n))
        interval = [0, 0, 2, 3][n % 4]
        sched = gen(rng, rng.randint(2, length), interval)
        burn = {ep: rng.choice([0, 0, 65530, 65533, 65535]) for ep in EPS} if n % 3 == 0 else {}
        dns = [0, 0, 0, 0, 1, 1, 2, 3][(n // 4) % 8]     # address resolution suspends the sender for 0..3 iterations
        ev = run_schedule(sched, interval, EVENTS, {1: 7, 2: 9}, burn, dns)
        cfg = mon_cfg(interval)
        head = [{"k": "in", "op": "burn", "dst": ep, "n": k, "t": 0} for ep, k in burn.items() if k]
        out.append({"cfg": cfg, "ev": monpass.add_adv(head + ev), "sched": sched, "interval": interval, "burn": burn, "dns": dns,
                    "diag": {"interval": interval, "dns_yields": dns}})
    return out


def payload(tr):
    return {"sched": tr["sched"], "interval": tr["interval"], "burn": tr["burn"], "dns": tr.get("dns", 0), "trace": tr["ev"]}


def spec_consts(interval):
    return {"Match": "<<>>", "Sw": "AllOff",
            "Cfg": '[maxId |-> 65535, events |-> <<1, 2>>, values0 |-> (1 :> 7 @@ 2 :> 9), egInterval |-> %d, '
                   'epOrders |-> {<<"e1","e2","e3">>, <<"e1","e3","e2">>, <<"e2","e1","e3">>, <<"e2","e3","e1">>, <<"e3","e1","e2">>, <<"e3","e2","e1">>}] '
                   '@@ CfgDefault' % interval}


def check(ctx):
    m1 = Mode1(ctx, "MC_Ann")
    m1.holds("explicit rounds", "C17_quick.cfg", None if ctx.quick else {"MaxEv = 4": "MaxEv = 6"}, timeout=3000)
    m1.holds("cyclic rounds", "C17_quick.cfg", dict({"C17_X": "C17_C", "C17_InputsX": "C17_InputsC"}, **({} if ctx.quick else {"MaxEv = 4": "MaxEv = 6"})), timeout=3000)
    m1.caught("SwOneShot", "C17_quick.cfg")
    traces = traces_for(ctx.seed, ctx.pick(400, 6000), ctx.pick(9, 14))
    rep = replace_traces()
    bad, ms = judge(ctx, "Mon_C17", traces + crowd_traces() + rep, "eventgroup histories", payload)
    # "a per-destination session id": one endpoint subscribed to two eventgroups of the service (judged by the session-id monitor of C08)
    from . import c08
    two = c08.two_group_traces()
    bad2, ms2 = judge(ctx, "Mon_C08", two, "two eventgroups, one subscriber", lambda tr: {"mode": "two_groups", "sched": tr["sched"], "trace": tr["ev"][-60:]})
    bad, ms = bad + bad2, ms + ms2
    from .common import spec_to_code

    def replay_x(sched):
        return run_schedule([{"t": 0, "j": 0, "op": "eg_create"}] + sched, 0, EVENTS, {1: 7, 2: 9}), []
    sim = spec_to_code(ctx, {"Inputs": "C17_InputsX", "Match": "<<>>", "Cfg": "C17_X", "Sw": "AllOff", "MaxEv": 7, "MaxIdle": 3, "MaxPerPoll": 2},
                       ctx.pick(25, 400), 90, replay_x, "Mon_C17", mon_cfg(0))
    acc = total = 0
    for interval in (0, 2, 3):
        plain = [t for t in traces if t["interval"] == interval and not any(t["burn"].values()) and not t["dns"]
                 and all(i["op"] != "eg_badsub" for i in t["sched"])][: ctx.pick(40, 300)]
        plain += [t for t in rep if t["interval"] == interval][: ctx.pick(12, 40)]
        a, t, _ = conformance(ctx, "SDTrace", spec_consts(interval), plain)
        acc += a
        total += t
    cov = dict(states=m1.states, transitions=m1.trans, traces_validated_against_impl=acc, monitor_traces=len(traces),
               monitor_failures=bad, monitor_states=ms, conformance_traces=total, spec_drift=total - acc, tlc_runs=m1.runs, **sim,
               exhaustive=False,
               samples=[{"interval": traces[0]["interval"], "schedule": traces[0]["sched"][:8], "trace": traces[0]["ev"][:16]}],
               rule="TLC: SimpleEventgroup of SD.tla (endpoint set, has_clients, initial / explicit / cyclic notification tasks "
                    "with their hop structure, per-destination session ids) x Mon_C17 for all schedules of 4(-5) operations; "
                    "real code: subscribe / unsubscribe from IPv4 and IPv6 endpoints, value updates in place and by replacing the mapping (other keys, other order), notify_once with list / "
                    "tuple / iterator / generator / dict view, cyclic intervals 2 and 3, refused subscriptions (0 or 2 "
                    "endpoints, unknown eventgroup), session counters pre-advanced next to the wrap, address resolution that "
                    "suspends the sender for 0-3 loop iterations")
    return ctx.finish("model_checking", cov, assumptions=["getaddrinfo of the harness loop suspends the caller for 0..3 loop iterations of the same tick (a real loop "
                                   "resolves in an executor thread, for an unbounded number of iterations); conformance with SD.tla only "
                                   "for the non-suspending resolver, the suspended runs are judged by the monitor alone"])


def replay(ctx, rep):
    p = rep["payload"]
    if p.get("mode") == "two_groups":
        from . import c08
        tr = {"cfg": {"dsts": c08.DSTS, "maxId": 65535}, "ev": monpass.add_adv(c08.run_notify([tuple(s) for s in p["sched"]])), "sched": p["sched"]}
        bad, _ = judge(ctx, "Mon_C08", [tr], "replay", lambda t: p)
        print("replay: %s" % ("violation reproduced" if bad else "no violation on the current tree"))
        return 1 if bad else 0
    qs = [i["ep"] for i in p["sched"] if str(i.get("ep", "")).startswith("q")]
    sdenv.endpoints(1 + max([int(x[1:]) for x in qs] + [0]))
    ev = run_schedule(p["sched"], p["interval"], EVENTS, {1: 7, 2: 9}, p["burn"], p.get("dns", 0))
    head = [{"k": "in", "op": "burn", "dst": ep, "n": k, "t": 0} for ep, k in p["burn"].items() if k]
    tr = {"cfg": mon_cfg(p["interval"]), "ev": monpass.add_adv(head + ev), "sched": p["sched"], "interval": p["interval"], "burn": p["burn"], "dns": p.get("dns", 0)}
    bad, _ = judge(ctx, "Mon_C17", [tr], "replay", payload)
    print("replay: %s" % ("violation reproduced" if bad else "no violation on the current tree"))
    return 1 if bad else 0
