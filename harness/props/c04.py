"""C04: two SD stacks converge (offers discovered, subscriptions established) after any sequence of
graceful stop/start, crash/restart and datagram loss / duplication / reordering."""
import json
import random

from .. import annenv, monpass, net2
from ..sdenv import FOREVER
from .common import Mode1, judge

CONFIGS = {
    # name: (timing, subscribe TTL, refresh, bound B = TTL + cyclic (+ start-up latency), loss faults allowed)
    "fin":  (annenv.tcfg(cyclic=4, annTTL=12, collect=0), 12, 4, 16, True),
    "fin1": (annenv.tcfg(cyclic=4, annTTL=12, collect=1, reps=1, base=1), 12, 4, 18, True),
    "init": (annenv.tcfg(cyclic=3, annTTL=9, collect=0, initMin=2, initMax=2, reps=2, base=1), 9, 3, 14, True),
    "inf":  (annenv.tcfg(cyclic=4, annTTL=FOREVER, collect=0), FOREVER, 0, 10, False),
    # infinite TTLs with a send-collection window: a StopOffer and the next Offer can share one datagram.
    # graceful disturbances only (crash / restart with infinite TTLs is what known finding F1 is about: config "inf")
    "inf1": (annenv.tcfg(cyclic=4, annTTL=FOREVER, collect=1), FOREVER, 0, 11, False),
}
# infinite TTLs and NO cyclic offers (offers only in the initial and repetition phases): a watcher that comes late learns the service
# from the answer to its FindService.  (A crash of the offering stack with infinite TTLs is known finding F1: left out here.)
CONFIGS["nocyc"] = (annenv.tcfg(cyclic=0, annTTL=FOREVER, collect=0, reps=2, base=1), FOREVER, 0, 9, False)
NO_SRV_CRASH = {"nocyc"}
GRACEFUL_ONLY = {"inf1"}
# the watcher holds two overlapping auto-subscriptions (any instance / instance 1) and withdraws the first one at some point
CONFIGS["two"] = CONFIGS["fin"]
# both stacks have been up for a long time before the run: their session counters have wrapped once (reboot flag cleared)
# and wrap a second time a few messages into the run
BURN = {"wrap": 65535 + 65531}
CONFIGS["wrap"] = CONFIGS["fin"]


def mcfg(name):
    return {"bound": CONFIGS[name][3], "needAlive": CONFIGS[name][1] == FOREVER}


def gen_faults(rng, lossy, n_max, t_max, graceful=False, no_srv_crash=False):
    out = []
    t = 0
    for _ in range(rng.randint(1, n_max)):
        t += rng.choice([0, 1, 1, 2, 3, 4, 5, 7, 12, 17])
        kinds = ["crash", "crash", "stop", "stop"] + (["loss", "drop", "dup", "delay"] if lossy else [])
        if graceful:
            kinds = ["stop"]
        k = rng.choice(kinds)
        node = rng.choice(["srv", "wat"])
        if k == "crash" and no_srv_crash:
            node = "wat"
        if k == "crash":
            out.append({"t": t, "kind": "crash", "node": node})
            if rng.random() < 0.85:
                t += rng.choice([0, 1, 2, 3, 5, 13, 20])
                out.append({"t": t, "kind": "restart", "node": node})
        elif k == "stop":
            out.append({"t": t, "kind": "stop", "node": node})
            if rng.random() < 0.85:
                t += rng.choice([0, 1, 2, 3, 5, 13, 20])
                out.append({"t": t, "kind": "start", "node": node})
        elif k == "loss":
            out.append({"t": t, "kind": "loss_on"})
            t += rng.choice([1, 2, 4, 5, 9, 13, 25])
            out.append({"t": t, "kind": "loss_off"})
        elif k == "delay":
            out.append({"t": t, "kind": "delay", "d": rng.choice([1, 2, 5])})
        else:
            out.append({"t": t, "kind": k})
        if t > t_max:
            break
    # a node may only be restarted / started if that makes sense: normalise per node
    state = {"srv": "run", "wat": "run"}
    norm = []
    for f in out:
        n = f.get("node")
        if f["kind"] == "crash" and state[n] == "down":
            continue
        if f["kind"] == "restart" and state[n] != "down":
            continue
        if f["kind"] == "stop" and state[n] != "run":
            continue
        if f["kind"] == "start" and state[n] != "stopped":
            continue
        if f["kind"] == "crash":
            state[n] = "down"
        elif f["kind"] == "restart":
            state[n] = "run"
        elif f["kind"] == "stop":
            state[n] = "stopped"
        elif f["kind"] == "start":
            state[n] = "run"
        norm.append(f)
    return norm


def run(cfgname, faults):
    tc, sub_ttl, refresh, bound, _ = CONFIGS[cfgname]
    net = net2.Net(tc, sub_ttl, refresh, burn=BURN.get(cfgname, 0), two_subs=(cfgname == "two"))
    t_end = (max([f["t"] + f.get("d", 0) for f in faults]) if faults else 0) + bound + 2 * tc["cyclic"] + 3
    ev = net.run(faults, t_end)
    return ev


def traces_for(seed, count, n_max):
    out = []
    names = list(CONFIGS)
    for n in range(count):
        rng = random.Random("c04/%s/%s" % (seed, n))
        name = names[n % len(names)]
        faults = gen_faults(rng, CONFIGS[name][4], n_max, 60, name in GRACEFUL_ONLY, name in NO_SRV_CRASH) if n >= len(names) else []
        if name == "two":
            faults = sorted(faults + [{"t": rng.randint(1, 30), "kind": "unfind", "node": "wat"}], key=lambda f: f["t"])
        ev = run(name, faults)
        out.append({"cfg": mcfg(name), "ev": monpass.add_adv(ev), "faults": faults, "config": name,
                    "diag": {"config": name, "pattern": "F1" if f1_pattern(ev, name) else "",
                             "faults": [(f["t"], f["kind"], f.get("node", "")) for f in faults][:8]}})
    return out


def sweep(cfgname, kinds_nodes, t_range, gaps):
    """one two-step disturbance at every tick x every gap (the deadline neighbourhoods of a fault-free run)"""
    out = []
    for (k1, k2, node) in kinds_nodes:
        for t in t_range:
            for g in gaps:
                f1 = {"t": t, "kind": k1}
                f2 = {"t": t + g, "kind": k2}
                if node:
                    f1["node"] = node
                    f2["node"] = node
                faults = [f1, f2]
                ev = run(cfgname, faults)
                out.append({"cfg": mcfg(cfgname), "ev": monpass.add_adv(ev), "faults": faults, "config": cfgname,
                            "diag": {"config": cfgname, "pattern": "F1" if f1_pattern(ev, cfgname) else "",
                                     "faults": [(f["t"], f["kind"], f.get("node", "")) for f in faults]}})
    return out


def f1_pattern(ev, config):
    """known finding F1: with infinite TTLs the offering stack restarts while the current watcher incarnation
    has not yet received any multicast message of the previous offerer incarnation: per-channel reboot
    detection then sees a first message on that channel, no reboot; the watcher never subscribes again"""
    if config != "inf":
        return False
    up = {"srv": True, "wat": True}
    heard = heard_at_crash = False
    hit = False
    for e in ev:
        if e.get("op") == "fault" and e.get("node") in up:
            n, k = e["node"], e["kind"]
            if k == "crash":
                up[n] = False
                if n == "srv":
                    heard_at_crash, heard = heard, False
                else:
                    heard = False
            elif k == "restart":
                up[n] = True
                if n == "srv" and up["wat"] and not heard_at_crash:
                    hit = True
                if n == "wat":
                    heard = False
        elif e.get("op") == "wire" and e["node"] == "srv" and e["mc"] and not e["lost"] and up["wat"]:
            heard = True
    return hit


def payload(tr):
    return {"faults": tr["faults"], "config": tr["config"], "trace": tr["ev"]}


def sub_cfg(name, kinds, **kw):
    d = {"Cfg <- C04_fin": "Cfg <- C04_" + name, "MCfg <- M_fin": "MCfg <- M_" + name, "Kinds <- NodeKinds": "Kinds <- " + kinds}
    for k, v in kw.items():
        key = {"faults": "MaxFaults = 2", "sched": 'Sched = "prio"', "window": "FaultWindow = 9", "horizon": "Horizon = 40"}[k]
        d[key] = key.split("=")[0] + "= " + (('"%s"' % v) if k == "sched" else str(v))
    return d


def mode1(ctx):
    """exhaustive TLC runs of the two-stack model SD2.tla x Mon_C04"""
    m1 = Mode1(ctx, "MC_C04")
    m1.holds("fin, crash/stop of either stack, 2 steps", "C04_quick.cfg")
    m1.holds("fin, all disturbances, 2 steps", "C04_quick.cfg", sub_cfg("fin", "AllKinds"))
    m1.holds("wrap (session counters past their first wrap), all disturbances, 2 steps", "C04_quick.cfg", sub_cfg("wrap", "AllKinds"))
    m1.holds("inf, 2 steps", "C04_quick.cfg", sub_cfg("inf", "InfKinds"))
    m1.holds("inf1, 2 steps", "C04_quick.cfg", sub_cfg("inf1", "InfKinds"))
    m1.holds("nocyc (no cyclic offers), 2 steps", "C04_quick.cfg", sub_cfg("nocyc", "InfKinds"))
    two = {"Match <- C04_Match": "Match <- C04_Match2"}
    m1.holds("two (two overlapping auto-subscriptions, one withdrawn), crash/stop/unfind, 2 steps", "C04_quick.cfg",
             sub_cfg("two", "TwoKinds") | two)
    if not ctx.quick:
        m1.holds("fin, all disturbances, 2 steps, free interleaving of the two loops", "C04_quick.cfg",
                 sub_cfg("fin", "AllKinds", sched="any"), timeout=3000)
        for name in ("fin", "fin1", "init"):
            m1.holds(name + ", all disturbances, 3 steps", "C04_quick.cfg", sub_cfg(name, "AllKinds", faults=3, horizon=44), timeout=3000)
        m1.holds("fin, crash/stop, 4 steps", "C04_quick.cfg", sub_cfg("fin", "NodeKinds", faults=4, horizon=44), timeout=3000)
        m1.holds("fin, all disturbances, 3 steps, free interleaving of the two loops", "C04_quick.cfg",
                 sub_cfg("fin", "AllKinds", faults=3, sched="any"), timeout=3000)
        m1.holds("fin, all disturbances, 4 steps", "C04_quick.cfg", sub_cfg("fin", "AllKinds", faults=4, horizon=46), timeout=3000)
        m1.holds("nocyc, 4 steps, free interleaving", "C04_quick.cfg", sub_cfg("nocyc", "InfKinds", faults=4, sched="any"), timeout=3000)
        m1.holds("two, all disturbances + unfind, 3 steps", "C04_quick.cfg", sub_cfg("two", "TwoAllKinds", faults=3, horizon=44) | two, timeout=3000)
        m1.holds("two, crash/stop/unfind, 2 steps, free interleaving", "C04_quick.cfg", sub_cfg("two", "TwoKinds", sched="any") | two, timeout=3000)
        for name in ("inf", "inf1"):
            m1.holds(name + ", 4 steps", "C04_quick.cfg", sub_cfg(name, "InfKinds", faults=4), timeout=3000)
            m1.holds(name + ", 2 steps, free interleaving", "C04_quick.cfg", sub_cfg(name, "InfKinds", sched="any"), timeout=3000)
    # non-vacuity: deviations of the design that must break convergence
    m1.caught("Sw_StaleTimerOnRefresh", "C04_quick.cfg")
    m1.caught("Sw_SubStopForgetsList", "C04_quick.cfg")
    m1.caught("Sw_QueueLatestWins", "C04_quick.cfg", sub_cfg("inf1", "InfKinds"))
    m1.caught("Sw_UnsubRemovesAll", "C04_quick.cfg", sub_cfg("two", "TwoKinds") | {"Match <- C04_Match": "Match <- C04_Match2"})
    return m1


def spec_schedules(ctx, name, kinds, rounds, per_round):
    """Mode 2: disturbance schedules taken from behaviours of SD2.tla (tlc -simulate), applied to the two real stacks"""
    from .. import simreplay
    rng = random.Random("c04sim/%s/%s" % (ctx.seed, name))
    out = []
    for rnd in range(rounds):
        ft = sorted(rng.sample(range(0, 18), rng.choice([1, 2, 3])))
        consts = {"Match": "C04_Match2" if name == "two" else "C04_Match", "Cfg": "C04_" + name, "Sw": "AllOff", "Kinds": kinds, "MaxFaults": rng.choice([2, 3, 4, 5]),
                  "FaultWindow": 18, "Horizon": 24, "Delays": "{1, 2, 5}", "Sched": '"any"', "FaultTimes": "{%s}" % ", ".join(map(str, ft))}
        for h in simreplay.behaviours2(consts, per_round, 2500, ctx.seed * 1000 + rnd):
            faults = simreplay.faults_of(h)
            if not faults:
                continue
            ev = run(name, faults)
            out.append({"cfg": mcfg(name), "ev": monpass.add_adv(ev), "faults": faults, "config": name,
                        "diag": {"config": name, "pattern": "F1" if f1_pattern(ev, name) else "", "from": "tlc -simulate (SD2Sim)",
                                 "faults": [(f["t"], f["kind"], f.get("node", "")) for f in faults][:8]}})
    return out


def check(ctx):
    m1 = mode1(ctx)
    traces = traces_for(ctx.seed, ctx.pick(300, 5000), ctx.pick(4, 7))
    # the recorded reproduction of known finding F1 is part of every run
    f1 = [{"t": 20, "kind": "crash", "node": "wat"}, {"t": 21, "kind": "restart", "node": "wat"},
          {"t": 22, "kind": "crash", "node": "srv"}, {"t": 22, "kind": "restart", "node": "srv"}]
    ev = run("inf", f1)
    traces.append({"cfg": mcfg("inf"), "ev": monpass.add_adv(ev), "faults": f1, "config": "inf",
                   "diag": {"config": "inf", "pattern": "F1" if f1_pattern(ev, "inf") else "", "faults": [(f["t"], f["kind"], f["node"]) for f in f1]}})
    pairs = [("crash", "restart", "srv"), ("crash", "restart", "wat"), ("stop", "start", "srv"), ("stop", "start", "wat"),
             ("loss_on", "loss_off", None)]
    for name in (["fin", "inf", "inf1", "wrap", "nocyc"] if ctx.quick else list(CONFIGS)):
        kn = [p for p in pairs if CONFIGS[name][4] or p[2] is not None]
        if name in GRACEFUL_ONLY:
            kn = [p for p in kn if p[0] == "stop"]
        if name in NO_SRV_CRASH:
            kn = [p for p in kn if not (p[0] == "crash" and p[2] == "srv")]
        traces += sweep(name, kn, range(0, ctx.pick(10, 24)), ctx.pick([0, 1, 3, 13], [0, 1, 2, 3, 4, 5, 8, 13, 20]))
    sim = spec_schedules(ctx, "fin", "AllKinds", ctx.pick(4, 30), ctx.pick(5, 10)) + \
        spec_schedules(ctx, "inf1", "InfKinds", ctx.pick(2, 15), ctx.pick(5, 10)) + \
        spec_schedules(ctx, "two", "TwoAllKinds", ctx.pick(2, 15), ctx.pick(5, 10))
    nsim = len(sim)
    traces = sim + traces        # (first in line for trace validation as well)
    bad, ms = judge(ctx, "Mon_C04", traces, "two-stack runs", payload)
    # trace validation: is every real two-stack run a behaviour of SD2.tla ?
    from .. import conform
    acc = total = 0
    worst = None
    for name in CONFIGS:
        sel = [t for t in traces if t["config"] == name][: ctx.pick(16 if name == "two" else 30, 250)]
        for t in sel:
            t["ticks"] = conform.ticks_of([e for e in t["ev"] if e.get("k") != "adv"])
        consts = {"Match": "C04_Match", "Cfg": "C04_" + name, "Sw": "AllOff"}
        if name == "two":       # the second auto-subscription and its withdrawal ("unfind")
            consts.update(Match="C04_Match2", Kinds="TwoAllKinds")
        res, _ = conform.run2(consts, sel)
        for t, r in zip(sel, res):
            total += 1
            acc += bool(r[0])
            if not r[0] and worst is None:
                worst = (name, t["faults"], r[1], r[2])
    if worst:
        ctx.note("spec-drift property=C04 traces=%d of %d not explained by SD2.tla; first: config %s faults %s matched %d of %d instants"
                 % (total - acc, total, worst[0], json.dumps(worst[1])[:300], worst[2], worst[3]))
    cov = dict(states=m1.states, transitions=m1.trans, tlc_runs=m1.runs, evaluations=len(traces), distinct_nontrivial=len({str(t["faults"]) + t["config"] for t in traces if t["faults"]}),
               rule="TLC: two-stack model SD2.tla (two instances of the stack of SDCore.tla, network with loss / drop / duplication / "
                    "delay, crash / restart / stop / start) x Mon_C04, exhaustive over every placement of 2 (thorough: 3-4) "
                    "disturbance steps in the first 10 ticks, every order of simultaneously due timers (thorough: every interleaving "
                    "of the two loops); real code: fault schedules for two real stacks on a simulated network: (a) every tick of the first 10-24 x every gap for "
                    "crash+restart / stop+start of either peer and a loss window, finite TTL with refresh and infinite TTL without; "
                    "(b) seeded random multi-fault schedules (up to 4-7 disturbances: crash, restart, stop, start, loss window, "
                    "single drop / duplication / delay) in five timing configurations (one with infinite TTLs and a send-collection "
                    "window, graceful stop/start only); distinct = distinct non-empty schedules; "
                    "judged by the TLA+ monitor Mon_C04 in TLC at every idle instant",
               monitor_traces=len(traces), monitor_failures=bad, monitor_states=ms,
               traces_validated_against_impl=acc, conformance_traces=total, spec_drift=total - acc,
               spec_schedules_replayed=nsim,
               samples=[{"config": traces[5]["config"], "faults": traces[5]["faults"],
                         "trace": [e for e in traces[5]["ev"] if e["k"] not in ("idle", "adv")][:16]}])
    return ctx.finish("model_checking", cov, assumptions=[
        "both stacks run on virtual loops with a shared clock; datagrams are carried by the harness network with zero latency "
        "unless a delay fault is applied", "bound B = TTL + cyclic period + configured start-up latencies (DESIGN §9)"])


def replay(ctx, rep):
    p = rep["payload"]
    ev = run(p["config"], p["faults"])
    tr = {"cfg": mcfg(p["config"]), "ev": monpass.add_adv(ev), "faults": p["faults"], "config": p["config"]}
    bad, _ = judge(ctx, "Mon_C04", [tr], "replay", payload)
    print("replay: %s" % ("violation reproduced" if bad else "no violation on the current tree"))
    return 1 if bad else 0
