"""C08: outgoing session ids per destination, reboot flag until the first wrap, empty sends.
Real send_sd over a fake transport (wrap crossed through a fast-forward of unobserved
assign_outgoing calls in the quick tier, walked completely in the thorough tier) and the
notification traffic of a SimpleEventgroup to several subscribers."""
import asyncio
import random

from .. import monpass, sdenv
from ..sdenv import hdr, sd
from ..vloop import FakeTransport, new_loop
from .common import Mode1, conformance, judge

DSTS = ["mc", "a1", "a2", "a4", "a5", "e1", "e2", "e3"]
ONE = [{"ty": "offer", "svc": "s1", "ttl": 3, "opts": []}]


def run_sd(plan):
    """plan: list of ('send', dst, es) / ('burn', dst, n)"""
    st = sdenv.Stack()

    def go():
        for step in plan:
            if step[0] == "burn":
                st.rec.emit(k="in", op="burn", dst=step[1], n=step[2])
                remote = None if step[1] == "mc" else sdenv.ADDR[step[1]]
                for _ in range(step[2]):
                    st.prot.session_storage.assign_outgoing(remote)
            else:
                _, dst, es = step
                st.rec.emit(k="in", op="send", dst=dst, es=es)
                try:
                    st.prot.send_sd([sdenv.conc_entry(a) for a in es], remote=None if dst == "mc" else sdenv.ADDR[dst])
                except Exception as exc:
                    st.rec.emit(k="exc", what=repr(exc)[:100])
    st.loop.inject(0, go)
    ev, _ = st.finish(1)
    return ev


def gen_plan(rng, sends, near_wrap):
    plan = []
    # multicast and two IPv4 peers, or two peers that differ only in their IPv6 scope id
    dsts = ["mc", "a4", "a5"] if rng.random() < 0.25 else ["mc", "a1", "a2"]
    if near_wrap:
        for d in dsts:
            plan.append(("burn", d, rng.choice([65535 - rng.randint(1, 40), 2 * 65535 - rng.randint(1, 40), 65533, 65534, 65535, 131069])))
    for _ in range(sends):
        d = rng.choice(dsts)
        if rng.random() < 0.2:
            plan.append(("send", d, []))
        else:
            plan.append(("send", d, ONE if rng.random() < 0.8 else ONE * rng.randint(2, 4)))
        if near_wrap and rng.random() < 0.01:
            plan.append(("burn", d, rng.randint(65400, 65535)))
    return plan


def sd_traces(seed, count, sends):
    cfg = {"dsts": DSTS, "maxId": 65535}
    out = []
    for i in range(count):
        rng = random.Random("c08/%s/%s" % (seed, i))
        plan = gen_plan(rng, sends, i % 4 != 0)
        out.append({"cfg": cfg, "ev": monpass.add_adv(run_sd(plan)), "sched": plan, "mode": "sd"})
    return out


def crowd_traces():
    """more destinations than any bounded table of counters holds, between two messages to the same destination"""
    out = []
    for n in (60, 1100):
        others = sdenv.hosts(n)
        plan = [("send", "a1", ONE), ("send", "a1", ONE), ("send", "mc", ONE), ("send", "a4", ONE)]
        plan += [("send", h, ONE) for h in others]
        plan += [("send", "a1", ONE), ("send", "mc", ONE), ("send", "a5", ONE), ("send", "a4", ONE), ("send", others[0], ONE)]
        out.append({"cfg": {"dsts": DSTS + others, "maxId": 65535}, "ev": monpass.add_adv(run_sd(plan)), "sched": plan, "mode": "sd"})
    return out


def full_cycle_trace():
    """one destination across 2 x 65535 real send_sd calls, empty sends in between (thorough tier)"""
    plan = []
    for i in range(2 * 65535 + 10):
        plan.append(("send", "a1", ONE))
        if i % 1000 == 0:
            plan.append(("send", "a1", []))
            plan.append(("send", "mc", ONE))
    ev = run_sd(plan)
    slim = [{k: (v if k != "es" else v[:1]) for k, v in e.items() if k in ("k", "op", "dst", "sid", "rb", "es", "t")} for e in ev]
    return {"cfg": {"dsts": DSTS, "maxId": 65535}, "ev": slim, "sched": "full cycle", "mode": "sd-full"}


# ------------------------------------------------------------------ notification traffic
def run_notify(plan):
    """plan: ('burn', ep, n) / ('notify', [eps subscribed], events) on a real SimpleEventgroup"""
    import someip.service as service
    loop = new_loop()
    rec = sdenv.Recorder(loop)

    def on_send(data, addr):
        while data:
            h, data = hdr.SOMEIPHeader.parse(data)
            rec.emit(k="out", op="ntx", dst=sdenv.addr_name(addr), sid=h.session_id, mid=h.method_id)

    class Svc(service.SimpleService):
        service_id = 0x1111
        version_major = 1
        version_minor = 0

    async def setup():
        svc = Svc(1)
        svc.transport = FakeTransport(on_send)
        eg = service.SimpleEventgroup(svc, id=1)
        eg.values = {1: b"a", 2: b"bc", 3: b"d", 4: b"ef", 5: b"g"}
        svc.register_eventgroup(eg)
        eg2 = service.SimpleEventgroup(svc, id=2)          # a second eventgroup of the same service: same socket, same counters
        eg2.values = {6: b"x", 7: b"yz"}
        svc.register_eventgroup(eg2)
        return svc, eg, eg2
    svc, eg, eg2 = loop.run_until_complete(setup())
    subscribed2 = set()
    subscribed = set()

    def do(step):
        if step[0] == "burn":
            rec.emit(k="in", op="burn", dst=step[1], n=step[2])
            for _ in range(step[2]):
                svc.session_storage.assign_outgoing(sdenv.ADDR[step[1]] if step[1] != "e3" else ("2001:db8::13", 40003, 0, 0))
        elif step[0] == "sub":
            ep = step[1]
            rec.emit(k="in", op="notify", dsts=[ep], per=len(eg.values))     # initial notification
            eg.subscribe(sdenv.EP[ep])
            subscribed.add(ep)
        elif step[0] == "sub2":
            rec.emit(k="in", op="notify", dsts=[step[1]], per=len(eg2.values))
            eg2.subscribe(sdenv.EP[step[1]])
            subscribed2.add(step[1])
        elif step[0] == "notify2":
            rec.emit(k="in", op="notify", dsts=sorted(subscribed2), per=len(step[1]))
            eg2.notify_once(list(step[1]))
        elif step[0] == "sub_unsub":   # subscribes and leaves in the same instant: the initial notification is sent all the same
            ep = step[1]
            rec.emit(k="in", op="notify", dsts=[ep], per=len(eg.values))
            eg.subscribe(sdenv.EP[ep])
            eg.unsubscribe(sdenv.EP[ep])
            subscribed.discard(ep)
        elif step[0] == "unsub":       # (ids are counted per destination whether or not it is subscribed at the moment)
            rec.emit(k="in", op="unsub", dst=step[1])
            eg.unsubscribe(sdenv.EP[step[1]])
            subscribed.discard(step[1])
        else:
            events = step[1]
            rec.emit(k="in", op="notify", dsts=sorted(subscribed), per=len(events))
            eg.notify_once(list(events))
    t = 0
    for step in plan:
        loop.inject(t, (lambda s=step: do(s)))
        t += 1
    loop.run_to(t + 1)
    rec.flush_exceptions()
    loop.shutdown()
    return rec.ev


def notify_traces(seed, count):
    cfg = {"dsts": DSTS, "maxId": 65535}
    out = []
    for i in range(count):
        rng = random.Random("c08n/%s/%s" % (seed, i))
        plan = []
        eps = ["e1", "e2", "e3"]
        for ep in eps:
            if rng.random() < 0.8:
                plan.append(("burn", ep, rng.choice([65535 - rng.randint(1, 12), 65533, 65534, 65535, 3, 65535 - rng.randint(1, 6),
                                                     2 * 65535 - rng.randint(0, 8)])))
        here = set()
        if i % 3 == 2:       # a subscriber that comes and leaves in one instant while nobody else is subscribed, and comes back later
            ep = rng.choice(eps)
            plan += [("sub_unsub", ep), ("sub", ep), ("notify", [1, 2])]
            here.add(ep)
        for ep in eps:
            if ep not in here:
                plan.append(("sub", ep))
        here = set(eps)
        for _ in range(rng.randint(4, 12)):
            if rng.random() < 0.25:       # a subscriber leaves (also right after it came: its initial notification is still in preparation)
                ep = rng.choice(eps)
                k = rng.random()
                if k < 0.4 and ep in here:
                    plan.append(("unsub", ep))
                    here.discard(ep)
                elif ep not in here:
                    plan.append(("sub_unsub", ep) if k > 0.7 else ("sub", ep))
                    if k <= 0.7:
                        here.add(ep)
                continue
            # one datagram carries one notification per event: rounds of up to five events straddle the wrap in every alignment
            plan.append(("notify", rng.choice([[1], [2], [1, 2], [1, 2, 3], [3, 1, 2, 4], [1, 2, 3, 4, 5], [5, 4, 3]])))
        out.append({"cfg": cfg, "ev": monpass.add_adv(run_notify(plan)), "sched": plan, "mode": "notify"})
    return out


def two_group_traces():
    """one subscriber endpoint in two eventgroups of one service: its session ids count on, whichever group notifies"""
    cfg = {"dsts": DSTS, "maxId": 65535}
    out = []
    for burn in (0, 65530):
        for order in (0, 1):
            plan = ([("burn", "e1", burn)] if burn else []) + [("sub", "e1"), ("sub2", "e1"), ("sub", "e2")]
            rounds = [("notify", [1, 2]), ("notify2", [6]), ("notify2", [7, 6]), ("notify", [3]), ("sub2", "e2"), ("notify2", [6, 7]), ("notify", [1])]
            plan += rounds if order == 0 else list(reversed(rounds))
            out.append({"cfg": cfg, "ev": monpass.add_adv(run_notify(plan)), "sched": plan, "mode": "notify"})
    return out


def trace_consts():
    return {"Match": "<<>>", "Cfg": "[maxId |-> 65535] @@ CfgDefault", "Sw": "AllOff"}


def check(ctx):
    m1 = Mode1(ctx, "MC_C08")
    m1.holds("3 destinations, MaxId 3, empty sends", "C08_quick.cfg")
    m1.caught("SwZero", "C08_quick.cfg")
    m1.caught("SwEmpty", "C08_quick.cfg")
    m1.holds("full 2 x 65535 cycle of one destination", "C08_quick.cfg", {"Q_": "W_"}, timeout=1200)
    a = sd_traces(ctx.seed, *ctx.pick((40, 150), (300, 400))) + crowd_traces()
    bad1, ms1 = judge(ctx, "Mon_C08", a, "send_sd", lambda tr: {"mode": "sd", "sched": tr["sched"], "trace": tr["ev"][-60:]})
    n = notify_traces(ctx.seed, ctx.pick(40, 400)) + two_group_traces()
    bad2, ms2 = judge(ctx, "Mon_C08", n, "notifications", lambda tr: {"mode": "notify", "sched": tr["sched"], "trace": tr["ev"][-60:]})
    bad3 = ms3 = 0
    extra = []
    if not ctx.quick:
        full = full_cycle_trace()
        bad3, ms3 = judge(ctx, "Mon_C08", [full], "send_sd full cycle", lambda tr: {"mode": "sd-full"})
        extra = [full]
    noburn = [t for t in a if all(s[0] != "burn" for s in t["sched"])][: ctx.pick(10, 60)]
    acc, total, _ = conformance(ctx, "SDTrace", trace_consts(), noburn)
    cov = dict(states=m1.states, transitions=m1.trans, traces_validated_against_impl=acc,
               monitor_traces=len(a) + len(n) + len(extra), monitor_failures=bad1 + bad2 + bad3,
               monitor_states=ms1 + ms2 + ms3,
               sends=sum(1 for t in a + extra for s in (t["sched"] if isinstance(t["sched"], list) else []) if s[0] == "send") + (131080 if extra else 0),
               conformance_traces=total, spec_drift=total - acc, tlc_runs=m1.runs, exhaustive=True,
               samples=[{"plan": a[1]["sched"][:8], "trace": a[1]["ev"][:10]}, {"plan": n[0]["sched"][:8], "trace": n[0]["ev"][:12]}],
               rule="TLC: complete 2 x 65535-state cycle of one destination and all interleavings of 3 destinations with MaxId 3 "
                    "and empty sends; real send_sd: seeded interleavings over multicast + 2 peers crossing each wrap at a "
                    "different moment (fast-forward via unobserved assign_outgoing calls; complete cycle in the thorough "
                    "tier); real SimpleEventgroup notification rounds to 3 subscribers across the wrap")
    return ctx.finish("model_checking", cov)


def replay(ctx, rep):
    p = rep["payload"]
    names = sorted({s[1] for s in p["sched"] if isinstance(s, (list, tuple)) and str(s[1]).startswith("h")}) if p["mode"] == "sd" else []
    sdenv.hosts(1 + max([int(x[1:]) for x in names] + [0]))
    cfg = {"dsts": DSTS + names, "maxId": 65535}
    if p["mode"] == "sd":
        tr = {"cfg": cfg, "ev": monpass.add_adv(run_sd([tuple(s) for s in p["sched"]])), "sched": p["sched"]}
    elif p["mode"] == "notify":
        tr = {"cfg": cfg, "ev": monpass.add_adv(run_notify([tuple(s) for s in p["sched"]])), "sched": p["sched"]}
    else:
        tr = full_cycle_trace()
    bad, _ = judge(ctx, "Mon_C08", [tr], "replay", lambda t: p)
    print("replay: %s" % ("violation reproduced" if bad else "no violation on the current tree"))
    return 1 if bad else 0
