"""C02: SD messages round-trip: every entry keeps exactly its own options; unrepresentable
messages fail to encode.  The TLA+ decoder of Wire.tla is the independent decoder."""
import random

from .. import codec, funcpass, sdenv, tlc
from ..framework import Machinery
from ..sdenv import hdr
from ..vloop import FakeTransport, new_loop


def decode_back(b):
    """the library's own decoder and option resolution on the emitted bytes"""
    def go():
        parsed, rest = hdr.SOMEIPSDHeader.parse(bytes(b))
        if rest:
            raise ValueError("rest after SD message")
        return codec.sd_res_j(parsed.resolve_options())
    if not b:
        return None, "nothing"
    return codec.attempt(go)


def rec_build(msg, via_send=False):
    def go():
        return bytes(msg.assign_option_indexes().build())
    b, out = codec.attempt(go)
    back, backout = decode_back(b)
    return {"op": "sdbuild", "msg": codec.sd_res_j(msg, v32=True), "out": out, "bytes": list(b or b""), "via": "build",
            "back": back or {"rb": False, "uc": False, "fl": 0, "es": []}, "backout": backout}


def rec_send(entries, rb_expected=True):
    """the same pipeline as used by ServiceDiscoveryProtocol.send_sd: bytes handed to transport.sendto"""
    st = sdenv.Stack()
    sent = []
    st.prot.transport = FakeTransport(lambda d, a: sent.append(d))
    _, out = codec.attempt(st.prot.send_sd, entries, sdenv.ADDR["a1"])
    st.loop.shutdown()
    payload = []
    if sent:
        h, _ = hdr.SOMEIPHeader.parse(sent[0])
        payload = list(h.payload)
    msg = hdr.SOMEIPSDHeader(entries=tuple(entries), flag_reboot=True, flag_unicast=True)
    back, backout = decode_back(bytes(payload))
    return {"op": "sdbuild", "msg": codec.sd_res_j(msg, v32=True), "out": out if sent or out != "ok" else "nothing_sent",
            "bytes": payload, "via": "send_sd", "back": back or {"rb": False, "uc": False, "fl": 0, "es": []}, "backout": backout}


def special_cases(rng):
    """runs of 0..17 options, many distinct options, boundary / over-wide fields"""
    out = []
    base = codec.rand_entry_fields(rng)
    for n1 in (0, 1, 14, 15, 16, 17):
        for n2 in (0, 1, 15, 16, 17):
            pool = [hdr.SOMEIPSDLoadBalancingOption(i, i) for i in range(40)]
            e = hdr.SOMEIPSDEntry(options_1=tuple(pool[:n1]), options_2=tuple(pool[20:20 + n2]), **base)
            out.append(hdr.SOMEIPSDHeader(entries=(e,)))
    # a run of 16 / 17 options that is ALREADY present in the shared array, spread over the (short) runs of earlier entries
    pool = [hdr.SOMEIPSDLoadBalancingOption(i, 100 + i) for i in range(40)]
    for n in (15, 16, 17):
        for cut in (1, n // 2, n - 1):
            for where in ("first", "second"):
                ea = hdr.SOMEIPSDEntry(options_1=tuple(pool[:cut]), options_2=tuple(pool[cut:n]), **codec.rand_entry_fields(rng))
                long_run = tuple(pool[:n])
                eb = hdr.SOMEIPSDEntry(options_1=long_run if where == "first" else (), options_2=long_run if where == "second" else (),
                                       **codec.rand_entry_fields(rng))
                ec = hdr.SOMEIPSDEntry(options_1=tuple(pool[1:n]) if where == "first" else tuple(pool[20:22]),
                                       options_2=tuple(pool[1:n]) if where == "second" else (), **codec.rand_entry_fields(rng))
                out.append(hdr.SOMEIPSDHeader(entries=(ea, eb)))
                out.append(hdr.SOMEIPSDHeader(entries=(ea, ec, eb)))
    # configuration options that differ only in the letter case of a key are different options
    ca = hdr.SOMEIPSDConfigOption((("protocol", "someip"), ("hw", None)))
    cb = hdr.SOMEIPSDConfigOption((("Protocol", "someip"), ("hw", None)))
    cc = hdr.SOMEIPSDConfigOption((("PROTOCOL", "someip"), ("hw", None)))
    for runs in (((ca,), (cb,)), ((ca, cb), (cc,)), ((cb,), (ca, cc))):
        out.append(hdr.SOMEIPSDHeader(entries=(hdr.SOMEIPSDEntry(options_1=runs[0], options_2=runs[1], **codec.rand_entry_fields(rng)),
                                               hdr.SOMEIPSDEntry(options_1=runs[1], options_2=(), **codec.rand_entry_fields(rng)))))
    for total in (200, 240, 255, 256, 270, 285, 300):        # distinct options needed
        pool = [hdr.SOMEIPSDLoadBalancingOption(i, 7) for i in range(total)]
        es = [hdr.SOMEIPSDEntry(options_1=tuple(pool[i:i + 15]), options_2=(), **codec.rand_entry_fields(rng)) for i in range(0, total, 15)]
        out.append(hdr.SOMEIPSDHeader(entries=tuple(es)))
    wide = [dict(service_id=0x10000), dict(instance_id=0x10000), dict(major_version=256), dict(ttl=0x1000000),
            dict(minver_or_counter=0x100000000), dict(service_id=-1)]
    for w in wide:
        f = dict(base)
        f.update(w)
        out.append(hdr.SOMEIPSDHeader(entries=(hdr.SOMEIPSDEntry(**f),)))
    out.append(hdr.SOMEIPSDHeader(entries=(hdr.SOMEIPSDEntry(options_1=(hdr.SOMEIPSDLoadBalancingOption(0x10000, 1),), **base),)))
    out.append(hdr.SOMEIPSDHeader(entries=(hdr.SOMEIPSDEntry(options_1=(hdr.SOMEIPSDUnknownOption(0x100, b""),), **base),)))
    return out


def records(ctx):
    rng = random.Random("c02/%s" % ctx.seed)
    recs = []
    for m in special_cases(rng):
        recs.append(rec_build(m))
    for i in range(ctx.pick(2500, 30000)):      # two or three distinct options, long runs: periodic patterns in run and array
        pool = [hdr.SOMEIPSDLoadBalancingOption(1, 1), hdr.IPv4EndpointOption(__import__("ipaddress").IPv4Address("192.0.2.1"), hdr.L4Protocols.UDP, 1),
                hdr.SOMEIPSDLoadBalancingOption(2, 2)][: rng.choice([2, 2, 3])]
        es = [hdr.SOMEIPSDEntry(options_1=tuple(rng.choices(pool, k=rng.randint(0, 12))), options_2=tuple(rng.choices(pool, k=rng.randint(0, 9))),
                                **codec.rand_entry_fields(rng)) for _ in range(rng.randint(2, 8))]
        recs.append(rec_build(hdr.SOMEIPSDHeader(entries=tuple(es))))
    for i in range(ctx.pick(1500, 30000)):
        m = codec.rand_sd(rng, max_entries=rng.choice([1, 2, 4, 8]), run_max=rng.choice([2, 4, 15, 17]))
        recs.append(rec_build(m))
        if i % 10 == 0 and m.entries:
            recs.append(rec_send(list(m.entries)))
    return recs


WIDTH = {"sid": 16, "iid": 16, "maj": 8, "ttl": 24, "prio": 16, "weight": 16, "type": 8, "port": 16, "proto": 8}


def fits(j):
    """JSON numbers must stay inside TLC's integers: over-wide fields are clamped into 'too big' representatives;
    j["fits"] tells whether every numeric field was inside its wire width"""
    ok = True
    for e in j["msg"]["es"]:
        ok = ok and all(0 <= e[k] < (1 << WIDTH[k]) for k in ("sid", "iid", "maj", "ttl")) and 0 <= e["v32"] < (1 << 32)
        for o in e["o1"] + e["o2"]:
            ok = ok and all(0 <= o[k] < (1 << WIDTH[k]) for k in WIDTH if k in o)
            if o["k"] == "cfg":
                ok = ok and all(len(i["key"]) + (len(i["val"]) + 1 if i["has"] else 0) <= 255 for i in o["items"])
    j["fits"] = ok
    for e in j["msg"]["es"]:
        del e["v32"]
        for k, lim in (("sid", 1 << 20), ("iid", 1 << 20), ("maj", 1 << 20), ("ttl", 1 << 28)):
            if not (0 <= e[k] < lim):
                e[k] = lim
        e["v"] = [min(max(x, 0), 1 << 20) for x in e["v"]]
        for o in e["o1"] + e["o2"]:
            for k in ("prio", "weight", "type", "port", "proto"):
                if k in o and not (0 <= o[k] < (1 << 20)):
                    o[k] = 1 << 20
    return j


def check(ctx):
    res = tlc.run("MC_Wire", "Wire.cfg", timeout=1200)
    if res.error or res.timeout:
        raise Machinery("TLC failed on MC_Wire: %s" % (res.error or "timeout")[:500])
    if res.violated:
        ctx.violation({"clause": "design:" + res.violated, "source": "TLC laws"}, {"trace": res.trace})
    recs = [fits(r) for r in records(ctx)]
    # limbs of an over-wide 32-bit value: mark as not fitting
    verdicts, st = funcpass.run("Wire", "SDBuildVerdict", recs, jobs=12)
    bad = 0
    for r, v in zip(recs, verdicts):
        if v:
            bad += 1
            runs = [[len(e["o1"]), len(e["o2"])] for e in r["msg"]["es"]]
            ctx.violation({"clause": v.split(":")[0], "source": r["via"], "runs": runs[:6], "out": r["out"]}, {"record": r})
    cov = dict(states=res.distinct, transitions=res.generated, traces_validated_against_impl=len(recs) - bad, records=len(recs),
               record_states=st, encode_errors=sum(r["out"] != "ok" for r in recs), via_send_sd=sum(r["via"] == "send_sd" for r in recs),
               exhaustive=False,
               samples=[{"runs": [[len(e["o1"]), len(e["o2"])] for e in recs[60]["msg"]["es"]], "out": recs[60]["out"],
                         "bytes": recs[60]["bytes"][:48]}],
               rule="TLC: SD round-trip / ValidLayout laws of Wire.tla on the enumerated boundary domain; real code: seeded SD "
                    "messages with shared / repeated / overlapping / partially overlapping option runs of all option kinds, runs "
                    "of 0..17 options, 200..300 distinct options, boundary and over-wide fields, through assign_option_indexes()."
                    "build() and through send_sd; TLC decodes the emitted bytes with the TLA+ decoder and compares the resolved "
                    "runs entry by entry (encoding is a relation: any sharing strategy is accepted)")
    return ctx.finish("model_checking", cov)


def replay(ctx, rep):
    r = rep["payload"]["record"]
    es = []
    T = hdr.SOMEIPSDEntryType
    for e in r["msg"]["es"]:
        es.append(hdr.SOMEIPSDEntry(sd_type=T(e["ty"]), service_id=e["sid"], instance_id=e["iid"], major_version=e["maj"], ttl=e["ttl"],
                                    minver_or_counter=(e["v"][0] << 16) | e["v"][1],
                                    options_1=tuple(codec.opt_obj(o) for o in e["o1"]), options_2=tuple(codec.opt_obj(o) for o in e["o2"])))
    m = hdr.SOMEIPSDHeader(entries=tuple(es), flag_reboot=r["msg"]["rb"], flag_unicast=r["msg"]["uc"], flags_unknown=r["msg"]["fl"])
    rec = fits(rec_build(m))
    v, _ = funcpass.run("Wire", "SDBuildVerdict", [rec])
    if v[0]:
        ctx.violation({"clause": v[0].split(":")[0], "source": "replay"}, {"record": rec})
    print("replay: %s" % ("violation reproduced" if v[0] else "no violation on the current tree"))
    return 1 if v[0] else 0
