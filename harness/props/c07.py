"""C07: reboot detection per (sender, channel).  Direct driving of _SessionStorage.check_received
and the full receive path with the three components' reboot_detected wrapped by recorders."""
import random

from .. import monpass, sdenv
from ..sdenv import sd
from ..vloop import new_loop
from .common import Mode1, conformance, judge

SRCS = ["a1", "a2", "a3"]
BOUNDARY = [1, 2, 3, 0x7FFF, 0xFFFE, 0xFFFF]


def symbols():
    return [(f, i) for f in (False, True) for i in BOUNDARY]


def de_bruijn_pairs(sym):
    """a sequence in which every ordered pair of symbols occurs consecutively"""
    seq = []
    n = len(sym)
    for a in range(n):
        for b in range(n):
            seq += [sym[a], sym[b]]
    return seq


def gen_sequence(rng, n, boundary_only):
    seq = []
    for _ in range(n):
        sid = rng.choice(BOUNDARY) if boundary_only or rng.random() < 0.5 else rng.randint(1, 0xFFFF)
        if rng.random() < 0.25 and seq:
            prev = seq[-1]
            sid = max(1, min(0xFFFF, prev["sid"] + rng.choice([-1, 0, 1])))
        seq.append({"src": rng.choice(SRCS), "mc": rng.random() < 0.5, "rb": rng.random() < 0.6, "sid": sid})
    return seq


def run_direct(seq):
    st = sd._SessionStorage()
    ev = []
    for m in seq:
        ev.append({"k": "in", "op": "rx", "src": m["src"], "mc": m["mc"], "sid": m["sid"], "rb": m["rb"], "t": 0})
        try:
            r = st.check_received(sdenv.ADDR[m["src"]], m["mc"], m["rb"], m["sid"])
            ev.append({"k": "out", "op": "ret", "val": bool(r), "t": 0})
        except Exception as exc:
            ev.append({"k": "exc", "what": repr(exc), "t": 0})
    ev.append({"k": "idle", "t": 0})
    return ev


def run_protocol(seq, spread):
    """through datagram_received; spread: list of (t, j) per message"""
    st = sdenv.Stack()
    for comp, obj in (("disc", st.prot.discovery), ("sub", st.prot.subscriber), ("ann", st.prot.announcer)):
        orig = obj.reboot_detected

        def wrapper(addr, comp=comp, orig=orig):
            st.rec.emit(k="out", op="reboot", comp=comp, a=sdenv.addr_name(addr))
            return orig(addr)
        obj.reboot_detected = wrapper
    for m, (t, j) in zip(seq, spread):
        if m.get("op") in ("prot_stop", "prot_start"):     # the stack itself is stopped / started: what it remembers of its peers stays
            fn = st.prot.stop if m["op"] == "prot_stop" else st.prot.start
            st.loop.inject(t, (lambda o=m["op"], f=fn: st.call({"op": o}, f)), j)
            continue
        ev = {"op": "rx", "src": m["src"], "mc": m["mc"], "sid": m["sid"], "rb": m["rb"], "uc": m.get("uc", True),
              "es": m.get("es", [])}
        st.loop.inject(t, (lambda e=ev: st.rx(e)), j)
    return st.finish(max(t for t, _ in spread) + 2)


def direct_traces(seed, count, length):
    cfg = {"srcs": SRCS, "direct": True}
    traces = []
    # every ordered pair of boundary symbols on one key, other keys interleaved
    rng = random.Random("c07/db/%s" % seed)
    seq = []
    for f, i in de_bruijn_pairs(symbols()):
        seq.append({"src": "a1", "mc": True, "rb": f, "sid": i})
        if rng.random() < 0.5:
            seq.append({"src": rng.choice(SRCS), "mc": rng.random() < 0.5, "rb": rng.random() < 0.5, "sid": rng.choice(BOUNDARY)})
    traces.append({"cfg": cfg, "ev": run_direct(seq), "sched": seq, "mode": "direct"})
    for n in range(count):
        rng = random.Random("c07/%s/%s" % (seed, n))
        seq = gen_sequence(rng, length, n % 2 == 0)
        traces.append({"cfg": cfg, "ev": run_direct(seq), "sched": seq, "mode": "direct"})
    return traces


def crowd_traces():
    """more distinct senders than any bounded table of session states holds, between two messages of one sender"""
    out = []
    for n in (50, 1100, 2300):
        others = sdenv.hosts(n)
        for victim_mc in (True, False):
            seq = [{"src": "a1", "mc": victim_mc, "rb": True, "sid": 5}, {"src": "a1", "mc": victim_mc, "rb": True, "sid": 6},
                   {"src": "a1", "mc": not victim_mc, "rb": True, "sid": 9}]
            seq += [{"src": h, "mc": i % 2 == 0, "rb": True, "sid": 1 + i % 7} for i, h in enumerate(others)]
            seq += [{"src": "a1", "mc": victim_mc, "rb": True, "sid": 1},         # the victim rebooted: must be detected
                    {"src": "a1", "mc": not victim_mc, "rb": True, "sid": 10},    # the other channel: no reboot
                    {"src": others[0], "mc": True, "rb": True, "sid": 1}]         # the oldest of the crowd: same id again = reboot
            out.append({"cfg": {"srcs": SRCS + others, "direct": True}, "ev": run_direct(seq), "sched": seq, "mode": "direct",
                        "diag": {"family": "crowd of %d senders" % n}})
    return out


def protocol_traces(seed, count, length):
    cfg = {"srcs": SRCS, "direct": False}
    traces = []
    for n in range(count):
        rng = random.Random("c07p/%s/%s" % (seed, n))
        seq = gen_sequence(rng, length, n % 2 == 0)
        # now and then the stack is stopped and started again in between (half of the histories)
        if n % 2:
            up = rng.random() < 0.5
            if up:
                seq.insert(0, {"op": "prot_start"})
            k = 1
            while k < len(seq):
                if rng.random() < 0.15:
                    seq.insert(k, {"op": "prot_stop" if up else "prot_start"})
                    up = not up
                    k += 1
                k += 1
        t, spread = 0, []
        for m in seq:
            dt = rng.choice([0, 0, 1])
            t += dt
            j = rng.choice([0, 0, 1])
            if dt == 0 and spread:
                j = max(j, spread[-1][1])
            spread.append((t, j))
            if "op" in m:
                continue
            m["uc"] = rng.random() > 0.1
            m["es"] = rng.choice([[], [], [{"ty": "offer", "svc": "s1", "ttl": 3, "opts": []}],
                                  [{"ty": "find", "svc": "f1", "ttl": 3, "opts": []}],
                                  # an SD endpoint option naming some peer's endpoint (often not the sender's): detection follows the SENDER
                                  [{"ty": "offer", "svc": "s1", "ttl": 3, "opts": [rng.choice(["sd1", "sd2"])]}],
                                  [{"ty": "offer", "svc": "s3", "ttl": 3, "opts": ["e1", rng.choice(["sd1", "sd2"])]}]])
        ev, missed = run_protocol(seq, spread)
        traces.append({"cfg": cfg, "ev": monpass.add_adv(ev), "sched": seq, "spread": spread, "mode": "protocol"})
    return traces


def trace_consts():
    return {"Match": "<<>>", "Cfg": "[maxId |-> 65535, seeReboot |-> TRUE] @@ CfgDefault", "Sw": "AllOff"}


def check(ctx):
    m1 = Mode1(ctx, "MC_C07")
    m1.holds("closure 1 sender x 2 channels", "C07_quick.cfg")
    m1.caught("SwGE", "C07_quick.cfg")
    if not ctx.quick:
        m1.holds("closure 2 senders x 2 channels", "C07_quick.cfg", {"Q_": "T_"}, timeout=3000)
    d = direct_traces(ctx.seed, *ctx.pick((60, 120), (600, 300))) + crowd_traces()
    bad1, ms1 = judge(ctx, "Mon_C07", d, "check_received direct",
                      lambda tr: {"mode": "direct", "sched": tr["sched"], "trace": tr["ev"]})
    p = protocol_traces(ctx.seed, *ctx.pick((120, 40), (1500, 60)))
    bad2, ms2 = judge(ctx, "Mon_C07", p, "receive path",
                      lambda tr: {"mode": "protocol", "sched": tr["sched"], "spread": tr["spread"], "trace": tr["ev"]})
    plain = p[: ctx.pick(60, 400)]
    acc, total, _ = conformance(ctx, "SDTrace", trace_consts(), plain)
    cov = dict(states=m1.states, transitions=m1.trans, traces_validated_against_impl=acc,
               monitor_traces=len(d) + len(p), monitor_failures=bad1 + bad2, monitor_states=ms1 + ms2,
               messages=sum(len(t["sched"]) for t in d + p), conformance_traces=total, spec_drift=total - acc,
               tlc_runs=m1.runs, exhaustive=not ctx.quick,
               samples=[{"messages": d[1]["sched"][:6], "trace": d[1]["ev"][:12]},
                        {"messages": p[0]["sched"][:4], "trace": p[0]["ev"][:14]}],
               rule="TLC: reachable (session memory x monitor) space of the receive path closed over senders x channels x "
                    "flag x ids {1,2,3,0x7FFF,0xFFFE,0xFFFF}; real code: every ordered pair of boundary symbols on one key "
                    "(de Bruijn walk) with foreign traffic interleaved, random 16-bit sequences, through check_received "
                    "and through datagram_received with the three components wrapped")
    return ctx.finish("model_checking", cov, assumptions=["session id 0 is outside the alphabet (never sent by a conforming peer)"])


def replay(ctx, rep):
    p = rep["payload"]
    if p["mode"] == "direct":
        names = sorted({m["src"] for m in p["sched"]} - set(SRCS))
        sdenv.hosts(1 + max([int(x[1:]) for x in names] + [0]))
        tr = {"cfg": {"srcs": SRCS + names, "direct": True}, "ev": run_direct(p["sched"]), "sched": p["sched"]}
    else:
        ev, _ = run_protocol(p["sched"], [tuple(x) for x in p["spread"]])
        tr = {"cfg": {"srcs": SRCS, "direct": False}, "ev": monpass.add_adv(ev), "sched": p["sched"], "spread": p["spread"]}
    bad, _ = judge(ctx, "Mon_C07", [tr], "replay", lambda t: p)
    print("replay: %s" % ("violation reproduced" if bad else "no violation on the current tree"))
    return 1 if bad else 0
