"""C05 driver: discovery listener histories on the real ServiceDiscoveryProtocol."""
import random

from .. import sdenv
from ..sdenv import FOREVER

SRCS = ["a1", "a2"]
SVCS = ["s1", "s2", "s3"]
LSTS = ["L1", "L2", "L3"]
FLTS = ["F1", "F2", "F3", "F4"]


def mon_cfg():
    return {"srcs": SRCS, "svcs": SVCS, "lsts": LSTS, "match": sdenv.match_table(FLTS, SVCS)}


def run_schedule(sched, t_extra=5):
    """sched: list of inputs {t, j, op, ...}; returns (events, missed positions)"""
    st = sdenv.Stack()
    lst = {n: sdenv.ClientL(st.rec, n) for n in LSTS}
    d = st.prot.discovery

    class NestL(sdenv.ClientL):
        """a listener that reacts to its first offer by registering a further (watch-all) listener from inside the callback"""
        def __init__(self, rec, name, other):
            super().__init__(rec, name)
            self.other = other

        def service_offered(self, service, source):
            super().service_offered(service, source)
            if self.other:
                other, self.other = self.other, None
                st.call({"op": "watch", "lst": other, "flt": "ALL"}, d.watch_all_services, lst[other])

    def do(inp):
        op = inp["op"]
        ev = {k: v for k, v in inp.items() if k not in ("t", "j", "nest")}
        if op == "watch" and inp.get("nest"):
            lst[inp["lst"]] = NestL(st.rec, inp["lst"], inp["nest"])
        if op == "rx":
            st.rx(ev)
        elif op == "watch":
            if inp["flt"] == "ALL":
                st.call(ev, d.watch_all_services, lst[inp["lst"]])
            else:
                st.call(ev, d.watch_service, sdenv.service(inp["flt"]), lst[inp["lst"]])
        elif op == "unwatch":
            if inp["flt"] == "ALL":
                st.call(ev, d.stop_watch_all_services, lst[inp["lst"]])
            else:
                st.call(ev, d.stop_watch_service, sdenv.service(inp["flt"]), lst[inp["lst"]])
        elif op == "connlost":
            st.call(ev, st.prot.connection_lost, None)
        else:
            raise ValueError(op)

    tmax = 0
    for inp in sched:
        st.loop.inject(inp["t"], (lambda i=inp: do(i)), inp.get("j", 0))
        tmax = max(tmax, inp["t"])
    finite = [e["ttl"] for i in sched if i["op"] == "rx" for e in i["es"] if e["ttl"] not in (0, FOREVER)]
    horizon = tmax + (max(finite) if finite else 0) + t_extra
    return st.finish(horizon)


class Gen:
    """random histories; keeps per-(src, channel) session counters so reboot evidence is deliberate"""

    def __init__(self, rng, ttls=(1, 2, 3, FOREVER)):
        self.rng = rng
        self.ttls = ttls
        self.sid = {}
        self.flag = {}
        self.reg = {l: None for l in LSTS}

    def rx(self, t, j):
        r = self.rng
        src = r.choice(SRCS)
        mc = r.random() < 0.7
        k = (src, mc)
        roll = r.random()
        if k not in self.sid:
            self.sid[k], self.flag[k] = r.choice([1, 1, 5, 0xFFFE]), True
        elif roll < 0.15:       # reboot evidence: counter restarts, flag set
            self.sid[k], self.flag[k] = 1, True
        elif roll < 0.20:       # same id again with flag set (also evidence)
            pass
        else:
            if self.sid[k] >= 0xFFFF:
                self.sid[k], self.flag[k] = 1, False
            else:
                self.sid[k] += 1
        n = r.choice([1, 1, 1, 2, 3])
        es = []
        for _ in range(n):
            ttl = r.choice([0, 0] + list(self.ttls) * 2)
            es.append({"ty": "offer", "svc": r.choice(SVCS), "ttl": ttl, "opts": r.choice([[], ["e1"], ["e1", "x1"]])})
        return {"t": t, "j": j, "op": "rx", "src": src, "mc": mc, "sid": self.sid[k], "rb": self.flag[k],
                "uc": r.random() > 0.05, "es": es}

    def api(self, t, j):
        r = self.rng
        l = r.choice(LSTS)
        if self.reg[l] is None:
            f = r.choice(FLTS + ["ALL", "ALL"])
            self.reg[l] = f
            return {"t": t, "j": j, "op": "watch", "lst": l, "flt": f}
        f, self.reg[l] = self.reg[l], None
        return {"t": t, "j": j, "op": "unwatch", "lst": l, "flt": f}

    def history(self, n):
        r = self.rng
        t = 0
        out = []
        # most histories start with somebody listening
        for l in LSTS:
            if r.random() < 0.6:
                f = r.choice(FLTS + ["ALL", "ALL"])
                self.reg[l] = f
                out.append({"t": 0, "j": 0, "op": "watch", "lst": l, "flt": f})
        for _ in range(n):
            dt = r.choice([0, 0, 0, 1, 1, 1, 2, 3])
            t += dt
            j = r.choice([0, 0, 0, 1, 1, 2, 3])
            if dt == 0 and out:
                j = max(j, out[-1]["j"])      # positions are lexicographically non-decreasing
            roll = r.random()
            if roll < 0.78:
                out.append(self.rx(t, j))
            elif roll < 0.97:
                out.append(self.api(t, j))
            else:
                out.append({"t": t, "j": j, "op": "connlost"})
        return out


def crowd_traces():
    """a source that was heard long ago reboots after more than a thousand other sources have been heard: its services
    must be reported stopped before the offers of the revealing message (no bounded table may forget it)"""
    from ..monpass import add_adv
    out = []
    for n in (40, 1100):
        others = sdenv.hosts(n)
        sched = [{"t": 0, "j": 0, "op": "watch", "lst": "L1", "flt": "ALL"},
                 {"t": 0, "j": 1, "op": "rx", "src": "a1", "mc": True, "sid": 5, "rb": True, "uc": True,
                  "es": [{"ty": "offer", "svc": "s1", "ttl": FOREVER, "opts": []}]}]
        for i, h in enumerate(others):
            sched.append({"t": 1, "j": 0, "op": "rx", "src": h, "mc": True, "sid": 1 + i % 5, "rb": True, "uc": True,
                          "es": [{"ty": "offer", "svc": "s3", "ttl": 0, "opts": []}]})
        sched.append({"t": 2, "j": 0, "op": "rx", "src": "a1", "mc": True, "sid": 1, "rb": True, "uc": True,
                      "es": [{"ty": "offer", "svc": "s2", "ttl": 3, "opts": []}]})
        ev, missed = run_schedule(sched)
        cfg = mon_cfg()
        cfg["srcs"] = SRCS + others
        out.append({"cfg": cfg, "ev": add_adv(ev), "sched": sched, "missed": missed})
    return out


def unwatched_gap_traces():
    """only watch-all listeners: an offer arrives while someone listens, again while nobody does (the record is dropped), and
    again after a listener is back -- the deadline of the first offer must not touch the last one"""
    from ..monpass import add_adv
    out = []
    sid = [0]

    def rx(t, j, ttl, src="a1", svc="s1"):
        sid[0] += 1
        return {"t": t, "j": j, "op": "rx", "src": src, "mc": True, "sid": sid[0], "rb": True, "uc": True,
                "es": [{"ty": "offer", "svc": svc, "ttl": ttl, "opts": []}]}
    for a in (2, 3):
        for mid in (None, 1, 3, FOREVER):
            for b in (5, FOREVER, 2):
                for back in ("L1", "L2"):
                    sid[0] = 0
                    sched = [{"t": 0, "j": 0, "op": "watch", "lst": "L1", "flt": "ALL"}, rx(1, 0, a),
                             {"t": 2, "j": 0, "op": "unwatch", "lst": "L1", "flt": "ALL"}]
                    if mid is not None:
                        sched.append(rx(2, 1, mid))
                    sched += [{"t": 3, "j": 0, "op": "watch", "lst": back, "flt": "ALL"}, rx(3, 1, b), rx(3, 1, b, "a2", "s2")]
                    ev, missed = run_schedule(sched, t_extra=4)
                    out.append({"cfg": mon_cfg(), "ev": add_adv(ev), "sched": sched, "missed": missed})
    return out


def nested_registration_traces():
    """a listener registers another listener from inside its service_offered callback: the new one hears about that very offer
    (or not), but it is never told `stopped` for something it was not told `offered`"""
    from ..monpass import add_adv
    out = []
    for flt in ("F2", "F1"):       # (L1 itself under a filter: registering a watch-all listener from inside a watch-all callback mutates the set being iterated -- RuntimeError in the library, outside the statement)
        for ttl in (2, FOREVER):
            for end in ("stop", "expire", "reboot", "connlost"):
                sched = [{"t": 0, "j": 0, "op": "watch", "lst": "L1", "flt": flt, "nest": "L3"},
                         {"t": 1, "j": 0, "op": "rx", "src": "a1", "mc": True, "sid": 4, "rb": True, "uc": True,
                          "es": [{"ty": "offer", "svc": "s1", "ttl": ttl, "opts": []}]}]
                if end == "stop":
                    sched.append({"t": 2, "j": 0, "op": "rx", "src": "a1", "mc": True, "sid": 5, "rb": True, "uc": True,
                                  "es": [{"ty": "offer", "svc": "s1", "ttl": 0, "opts": []}]})
                elif end == "reboot":
                    sched.append({"t": 2, "j": 0, "op": "rx", "src": "a1", "mc": True, "sid": 1, "rb": True, "uc": True, "es": []})
                elif end == "connlost":
                    sched.append({"t": 2, "j": 0, "op": "connlost"})
                ev, missed = run_schedule(sched, t_extra=4)
                out.append({"cfg": mon_cfg(), "ev": add_adv(ev), "sched": sched, "missed": missed})
    return out


def random_traces(seed, count, length):
    from ..monpass import add_adv
    traces = []
    for i in range(count):
        rng = random.Random("%s/%s" % (seed, i))
        sched = Gen(rng).history(rng.randint(max(2, length // 2), length))
        ev, missed = run_schedule(sched)
        traces.append({"cfg": mon_cfg(), "ev": add_adv(ev), "sched": sched, "missed": missed})
    return traces


# ---------------------------------------------------------------------------------- the check
from .. import conform, monpass, tlc  # noqa: E402
from ..framework import Machinery  # noqa: E402

NOSW = "NoSw"
TRACE_SW = "AllOff"


def trace_consts():
    return {"Match": tlc.to_tla({k: set(v) for k, v in sdenv.match_table(FLTS, SVCS).items()}),
            "Cfg": '[maxId |-> 65535, watch0 |-> [x \\in {"L1", "L2", "L3"} |-> {}]] @@ CfgDefault',
            "Sw": TRACE_SW}


def model_check(ctx, cfgname, sw=None, subst=None, timeout=1500):
    text = tlc.cfg_text(cfgname)
    for a, b in (subst or {}).items():
        text = text.replace(a, b)
    if sw:
        text = text.replace("Sw <- NoSw", "Sw <- " + sw)
    res = tlc.run("MC_C05", text, timeout=timeout)
    if res.error or res.timeout:
        raise Machinery("TLC failed on %s: %s" % (cfgname, (res.error or "timeout")[:500]))
    return res


def judge(ctx, traces, label):
    verdicts, mstates = monpass.run("Mon_C05", traces)
    bad = 0
    for tr, (clause, at) in zip(traces, verdicts):
        if clause:
            bad += 1
            ctx.violation({"clause": clause, "source": label, "at": at,
                           "event": tr["ev"][at - 1] if 0 < at <= len(tr["ev"]) else None},
                          {"sched": tr["sched"], "trace": tr["ev"]})
    return bad, mstates


def check(ctx):
    cov = {}
    # Mode 1: the design satisfies the monitor for every schedule within the bounds
    res = model_check(ctx, "C05_quick.cfg")
    if res.violated:
        ctx.violation({"clause": "design:" + res.violated, "source": "TLC exhaustive"}, {"trace": res.trace})
    states, trans = res.distinct, res.generated
    runs = [("C05_quick", res.distinct, res.generated)]
    # non-vacuity: the as-shipped deviations must be caught by the same monitor
    for sw, cfgname, sub in [("SwD1", "C05_quick.cfg", None),
                             ("SwD23", "C05_quick.cfg", None),
                             ("SwD13", "C05_quick.cfg", None),
                             ("SwD10", "C05_quick.cfg", {"Q_Inputs": "W_Inputs", "Q_Cfg": "W_Cfg", "MaxEv = 3": "MaxEv = 5"}),
                             ("SwD11", "C05_quick.cfg", {"Q_Inputs": "W_Inputs", "Q_Cfg": "W_Cfg", "MaxEv = 3": "MaxEv = 4"})]:
        r = model_check(ctx, cfgname, sw, sub)
        if not r.violated:
            raise Machinery("vacuity: deviation %s not caught by Mon_C05 in TLC" % sw)
    if not ctx.quick:
        for name, sub in [("W5", {"Q_Inputs": "W_Inputs", "Q_Cfg": "W_Cfg", "MaxEv = 3": "MaxEv = 5"}),
                          ("T4", {"Q_Inputs": "T_Inputs", "Q_Cfg": "T_Cfg", "MaxEv = 3": "MaxEv = 4"})]:
            r = model_check(ctx, "C05_quick.cfg", None, sub, timeout=3000)
            if r.violated:
                ctx.violation({"clause": "design:" + r.violated, "source": "TLC exhaustive " + name}, {"trace": r.trace})
            states += r.distinct
            trans += r.generated
            runs.append((name, r.distinct, r.generated))
    # Mode 3: monitor verdict on executions of the real code
    n, length = ctx.pick((300, 14), (4000, 24))
    traces = random_traces(ctx.seed, n, length) + crowd_traces() + unwatched_gap_traces() + nested_registration_traces()
    if any(t["missed"] for t in traces):
        ctx.note("schedule positions missed in %d traces" % sum(bool(t["missed"]) for t in traces))
    bad, mstates = judge(ctx, traces, "random histories")
    # Mode 4: conformance of the same executions with the system specification
    ok_traces = traces[: ctx.pick(150, 1000)]
    conf, cstates = conform.run("SDTrace", trace_consts(), ok_traces)
    accepted = sum(1 for a, _, _ in conf if a)
    if accepted < len(conf):
        first = next(i for i, c in enumerate(conf) if not c[0])
        ctx.note("spec-drift property=C05 traces=%d first_rejected_at_line=%d/%d" %
                 (len(conf) - accepted, conf[first][1], conf[first][2]))
    sim_consts = {"Inputs": '{[op |-> "rx", src |-> a, mc |-> m, reboot |-> r, uc |-> TRUE, es |-> <<[ty |-> "offer", svc |-> v, ttl |-> t]>>] '
                            ': a \\in {"a1", "a2"}, m \\in {TRUE}, v \\in {"s1", "s2"}, t \\in {0, 1, 2, 16777215}, r \\in BOOLEAN} '
                            '\\cup {[op |-> o, lst |-> l, flt |-> f] : o \\in {"watch", "unwatch"}, l \\in {"L2", "L3"}, f \\in {"F2", "ALL"}} '
                            '\\cup {[op |-> "connlost"]}',
                  "Match": tlc.to_tla({k: set(v) for k, v in sdenv.match_table(FLTS, SVCS).items()}),
                  "Cfg": '[watch0 |-> [L1 |-> {"ALL"}, L2 |-> {}, L3 |-> {}]] @@ CfgDefault', "Sw": "AllOff",
                  "MaxEv": 8, "MaxIdle": 4, "MaxPerPoll": 2}

    def replay_sim(sched):
        return run_schedule([{"t": 0, "j": 0, "op": "watch", "lst": "L1", "flt": "ALL", "pre": True}] + sched)
    from .common import spec_to_code
    cov.update(spec_to_code(ctx, sim_consts, ctx.pick(25, 500), 100, replay_sim, "Mon_C05", mon_cfg()))
    cov.update(states=states, transitions=trans, traces_validated_against_impl=accepted,
               monitor_traces=len(traces), monitor_failures=bad, monitor_states=mstates,
               conformance_traces=len(conf), spec_drift=len(conf) - accepted, tlc_runs=runs,
               events=sum(len(t["ev"]) for t in traces),
               samples=[{"schedule": traces[0]["sched"][:8], "trace": traces[0]["ev"][:20]}],
               exhaustive=False,
               rule="TLC: SD.tla (discovery) x Mon_C05 exhaustively for the constants of spec/cfg/C05_quick.cfg "
                    "(+W5/T4 in thorough); real code: seeded random histories over 2 sources x 3 services x 3 "
                    "listeners x 5 filters incl. same-tick / same-iteration positions, judged by Mon_C05 in TLC")
    return ctx.finish("model_checking", cov, assumptions=[
        "CPython 3.12 asyncio loop semantics (harness reuses BaseEventLoop._run_once)",
        "datagrams are built/decoded with the library codec (checked by C01/C02)"])


def replay(ctx, rep):
    sched = rep["payload"]["sched"]
    names = sorted({i["src"] for i in sched if i.get("src", "a").startswith("h")})
    sdenv.hosts(1 + max([int(x[1:]) for x in names] + [0]))
    ev, missed = run_schedule(sched)
    cfg = mon_cfg()
    cfg["srcs"] = SRCS + names
    tr = {"cfg": cfg, "ev": monpass.add_adv(ev), "sched": sched}
    bad, _ = judge(ctx, [tr], "replay")
    print("replay: %s" % ("violation reproduced" if bad else "no violation on the current tree"))
    return 1 if bad else 0
