"""C03: malformed or foreign input is rejected cleanly and changes nothing.
Decoder half: every decoder on the mutation corpus, outcome classified by Wire.tla (TLC).
Live half: twin runs of a real discovery endpoint with / without the rejected datagram."""
import random

from .. import annenv, codec, funcpass, monpass, sdenv, tlc
from ..framework import Machinery
from ..sdenv import hdr, sd
from . import c20


# ------------------------------------------------------------------ live endpoint: twin runs
def base_schedule(rng):
    """valid traffic: offers, finds, subscribes around a started stack with a listener and an instance"""
    sched = [{"t": 0, "j": 0, "op": "ann_start"}]
    sid = 0
    for t in range(1, rng.randint(3, 6)):
        sid += 1
        kind = rng.choice(["offer", "find", "sub"])
        if kind == "offer":
            es = [{"ty": "offer", "svc": rng.choice(["s1", "s3"]), "ttl": rng.choice([2, 3, 16777215]), "opts": ["e1"]}]
            mc = True
        elif kind == "find":
            es = [{"ty": "find", "svc": "f1", "ttl": 3, "opts": []}]
            mc = rng.random() < 0.5
        else:
            es = [{"ty": "sub", "svc": "s1", "eg": 1, "ctr": 0, "eps": ["e2"], "ttl": rng.choice([3, 16777215]), "opts": [], "acc": True}]
            mc = False
        sched.append({"t": t, "j": 0, "op": "rx", "src": "a1", "mc": mc, "sid": sid, "rb": True, "uc": True, "es": es})
    return sched


def bad_datagram(rng):
    """-> (bytes, class name); everything here must be rejected without any effect"""
    good = sdenv.build_sd([{"ty": "offer", "svc": "s2", "ttl": 5, "opts": ["e1", "x1"]},
                           {"ty": "sub", "svc": "s1", "eg": 2, "ctr": 1, "eps": ["e3"], "ttl": 4, "opts": []},
                           {"ty": "find", "svc": "f1", "ttl": 3, "opts": []}], True, rng.randint(1, 60000))
    k = rng.randrange(9)
    b = bytearray(good)
    if k == 0:
        b[0:2] = rng.choice([b"\x00\x00", b"\xff\xfe", b"\x12\x34"])
        return bytes(b), "wrong_service"
    if k == 1:
        b[2:4] = rng.choice([b"\x81\x01", b"\x00\x00", b"\x80\x00"])
        return bytes(b), "wrong_method"
    if k == 2:
        b[13] = rng.choice([0, 2, 255])
        return bytes(b), "wrong_interface_version"
    if k == 3:
        b[14] = rng.choice([0, 1, 0x80, 0x81])
        return bytes(b), "wrong_message_type"
    if k == 4:
        b[15] = rng.choice([1, 2, 10])
        return bytes(b), "wrong_return_code"
    if k == 5:      # undecodable SD payload, SOME/IP envelope intact
        for _ in range(50):
            p = codec.mutate(rng, bytes(b[16:]))
            try:
                hdr.SOMEIPSDHeader.parse(p)
            except Exception:
                env = bytes(b[:4]) + (len(p) + 8).to_bytes(4, "big") + bytes(b[8:16]) + p
                return env, "undecodable_sd_payload"
        return bytes(rng.randbytes(20)), "garbage"
    if k == 6:      # non-ASCII inside a configuration string
        i = bytes(b).find(b"k=v")
        b[i] |= 0x80
        return bytes(b), "non_ascii_config"
    if k == 7:
        return bytes(rng.randbytes(rng.choice([0, 1, 15, 16, 17, 64]))), "garbage"
    b[12] = rng.choice([0, 2, 9])
    return bytes(b), "wrong_protocol_version"


def observable(ev):
    """what must be identical in twin runs: every output with its time, idle markers, and the state probe"""
    return [e for e in ev if e["k"] != "in"]


def run_twin(sched, extra, insts=("I1",)):
    """extra: None | (t, j, bytes, src, mc)"""
    st = sdenv.Stack(tim=annenv.timings(annenv.tcfg(cyclic=4, annTTL=12)))
    ann = st.prot.announcer
    inst = sd.ServiceInstance(sdenv.service("s1", eventgroups=frozenset([1, 2])), sdenv.ServerL(st.rec, "I1"), ann, st.prot.timings)
    ann.announce_service(inst)
    st.prot.discovery.watch_all_services(sdenv.ClientL(st.rec, "L1"))
    escaped = []

    def do(inp):
        ev = {k: v for k, v in inp.items() if k not in ("t", "j")}
        if inp["op"] == "rx":
            st.rx(ev)
        else:
            st.call(ev, ann.start)

    def junk():
        t, j, data, src, mc = extra
        try:
            st.prot.datagram_received(data, sdenv.ADDR[src], multicast=mc)
        except BaseException as exc:      # noqa: B902
            escaped.append(repr(exc)[:120])
    for inp in sched:
        st.loop.inject(inp["t"], (lambda i=inp: do(i)), inp.get("j", 0))
    if extra:
        st.loop.inject(extra[0], junk, extra[1])
    ev, _ = st.finish(max(i["t"] for i in sched) + 6)
    probe = {"found": sorted((sdenv.addr_name(a), sdenv.svc_name(s)) for a, d in st.prot.discovery.found_services.store.items() for s in d),
             "subs": sorted((sdenv.addr_name(a), str(sdenv.abs_sub(s))) for a, d in inst.subscriptions.store.items() for s in d),
             "incoming": sorted((sdenv.addr_name(k[0]), k[1], v[0], v[1]) for k, v in st.prot.session_storage.incoming.items()),
             "outgoing": sorted((sdenv.addr_name(k), v[0], v[1]) for k, v in st.prot.session_storage.outgoing.items())}
    exc = escaped + [e["what"] for e in ev if e["k"] == "exc"]
    return observable(ev) + [{"k": "probe", **{k: [list(x) for x in v] for k, v in probe.items()}}], exc


def twin_records(ctx, rng):
    recs = []
    for n in range(ctx.pick(150, 3000)):
        sched = base_schedule(rng)
        if n % 6 == 5:      # unicast flag clear: equivalent to the same message without entries
            t = rng.randint(0, sched[-1]["t"])
            sid = 700 + n
            full = sdenv.build_sd([{"ty": "offer", "svc": "s2", "ttl": 5, "opts": []}, {"ty": "find", "svc": "f1", "ttl": 3, "opts": []},
                                   {"ty": "sub", "svc": "s1", "eg": 1, "ctr": 3, "eps": ["e1"], "ttl": 5, "opts": []}], True, sid, uc=False)
            empty = sdenv.build_sd([], True, sid, uc=False)
            mc = rng.random() < 0.5
            a, exa = run_twin(sched, (t, 1, full, "a2", mc))
            b, exb = run_twin(sched, (t, 1, empty, "a2", mc))
            recs.append({"a": a, "b": b, "exc": exa + exb, "cls": "unicast_flag_clear", "sched": sched, "extra": [t, 1, list(full), "a2", mc]})
            continue
        if n % 6 == 4:      # the previous, valid message of that sender repeated with the unicast flag clear: still to be ignored
            t = rng.randint(0, sched[-1]["t"])
            es = rng.choice([[{"ty": "sub", "svc": "s1", "eg": 1, "ctr": 3, "eps": ["e1"], "ttl": 5, "opts": []}],
                             [{"ty": "find", "svc": "f1", "ttl": 3, "opts": []}],
                             [{"ty": "offer", "svc": "s2", "ttl": 1, "opts": []}, {"ty": "find", "svc": "f1", "ttl": 3, "opts": []}]])
            mc = rng.random() < 0.3
            sid = 800 + n
            first = {"t": t, "j": 0, "op": "rx", "src": "a2", "mc": mc, "sid": sid, "rb": True, "uc": True, "es": es}
            gap = rng.choice([0, 0, 1, 2])
            sid2 = sid + rng.choice([1, 1, 0, -5])       # (same or smaller session id with the flag set: reboot evidence as well)
            again = sdenv.build_sd(es, True, sid2, uc=False)
            empty = sdenv.build_sd([], True, sid2, uc=False)
            sched2 = sorted(sched + [first], key=lambda i: (i["t"], i.get("j", 0)))
            a, exa = run_twin(sched2, (t + gap, 3, again, "a2", mc))
            b, exb = run_twin(sched2, (t + gap, 3, empty, "a2", mc))
            recs.append({"a": a, "b": b, "exc": exa + exb, "cls": "unicast_flag_clear_repeat", "sched": sched2, "extra": [t + gap, 3, list(again), "a2", mc]})
            continue
        data, cls = bad_datagram(rng)
        t = rng.randint(0, sched[-1]["t"])
        j = rng.choice([0, 1])
        src, mc = rng.choice(["a1", "a2"]), rng.random() < 0.5
        a, exa = run_twin(sched, (t, j, data, src, mc))
        b, exb = run_twin(sched, None)
        recs.append({"a": a, "b": b, "exc": exa + exb, "cls": cls, "sched": sched, "extra": [t, j, list(data), src, mc]})
    return recs


def service_records(ctx, rng):
    """SimpleService.datagram_received returns without raising whatever the bytes are"""
    from . import c16
    svc, sent, state = c16.make_service()
    state["hpayload"] = b"ok"
    bad = []
    n = 0
    for _ in range(ctx.pick(400, 8000)):
        m = codec.rand_msg(rng)
        data = codec.mutate(rng, m.build()) if rng.random() < 0.8 else rng.randbytes(rng.randint(0, 64))
        n += 1
        import warnings
        with warnings.catch_warnings():
            warnings.simplefilter("ignore")
            _, out = codec.attempt(svc.datagram_received, data, ("192.0.2.9", 4000), rng.random() < 0.2)
        if out != "ok":
            bad.append({"input": list(data), "out": out})
    return n, bad


def check(ctx):
    res = tlc.run("MC_Wire", "Wire.cfg", timeout=1200)
    if res.error or res.timeout:
        raise Machinery("TLC failed on MC_Wire: %s" % (res.error or "timeout")[:500])
    if res.violated:
        ctx.violation({"clause": "design:" + res.violated, "source": "TLC laws"}, {"trace": res.trace})
    # decoder half
    recs = c20.records(ctx, "c03")
    verdicts, st = funcpass.run("Wire", "DecodeVerdict", recs, jobs=12)
    bad = drift = 0
    for r, v in zip(recs, verdicts):
        if v.startswith("acceptance_differs"):
            drift += 1          # the code is more / less lenient than the specification: a note, not a violation
            continue
        if v:
            bad += 1
            ctx.violation({"clause": v.split(":")[0], "source": "decoder " + r["kind"], "detail": v, "out": r["out"]},
                          {"half": "decoder", "record": {k: r[k] for k in ("kind", "input", "n", "out", "value", "rest")}})
    if drift:
        ctx.note("spec-drift property=C03 records=%d (decoder accepts / rejects differently from Wire.tla)" % drift)
    # live half
    rng = random.Random("c03live/%s" % ctx.seed)
    twins = twin_records(ctx, rng)
    tv, st2 = funcpass.run("Wire", "TwinVerdict", [{"a": t["a"], "b": t["b"], "exc": t["exc"]} for t in twins], jobs=8)
    bad2 = 0
    for t, v in zip(twins, tv):
        if v:
            bad2 += 1
            ctx.violation({"clause": v, "source": "discovery endpoint twin run", "class": t["cls"], "exc": t["exc"][:1]},
                          {"half": "live", "sched": t["sched"], "extra": t["extra"], "cls": t["cls"]})
    nsvc, svc_bad = service_records(ctx, random.Random("c03svc/%s" % ctx.seed))
    for b in svc_bad[:10]:
        ctx.violation({"clause": "service_endpoint_receive_path_raised", "source": "SimpleService.datagram_received", "out": b["out"]},
                      {"half": "service", "record": b})
    classes = {}
    for t in twins:
        classes[t["cls"]] = classes.get(t["cls"], 0) + 1
    cov = dict(states=res.distinct, transitions=res.generated, traces_validated_against_impl=len(recs) - bad - drift + len(twins) - bad2,
               decoder_records=len(recs), decoder_outcomes={o: sum(1 for r in recs if r["out"] == o) for o in sorted({r["out"] for r in recs})},
               acceptance_drift=drift, twin_runs=len(twins), twin_classes=classes, service_datagrams=nsvc, record_states=st + st2,
               exhaustive=False,
               samples=[{"kind": recs[5]["kind"], "input": recs[5]["input"][:40], "out": recs[5]["out"]},
                        {"class": twins[0]["cls"], "datagram": twins[0]["extra"][2][:40], "events_compared": len(twins[0]["a"])}],
               rule="decoder half: every decoder on valid / non-canonical / mutated / random byte strings with a 5 s watchdog; TLC "
                    "(Wire.tla) classifies each input: value + unconsumed suffix, parse error, or Unicode error only for non-ASCII "
                    "configuration text; live half: twin runs of a real started stack (listener, instance, valid traffic) with and "
                    "without a rejected datagram of nine classes at every position -- outputs, times and a state probe must be "
                    "identical (cleared unicast flag: identical to the same message without entries); service endpoint: never raises")
    return ctx.finish("model_checking", cov)


def replay(ctx, rep):
    p = rep["payload"]
    if p["half"] == "decoder":
        r = p["record"]
        rec = c20.record(r["kind"], bytes(r["input"]), r["n"])
        v, _ = funcpass.run("Wire", "DecodeVerdict", [rec])
        bad = bool(v[0]) and not v[0].startswith("acceptance_differs")
    elif p["half"] == "live":
        t, j, data, src, mc = p["extra"]
        a, exa = run_twin(p["sched"], (t, j, bytes(data), src, mc))
        if p["cls"] == "unicast_flag_clear":
            b, exb = run_twin(p["sched"], (t, j, sdenv.build_sd([], True, int.from_bytes(bytes(data)[10:12], "big"), uc=False), src, mc))
        else:
            b, exb = run_twin(p["sched"], None)
        v, _ = funcpass.run("Wire", "TwinVerdict", [{"a": a, "b": b, "exc": exa + exb}])
        bad = bool(v[0])
    else:
        from . import c16
        svc, sent, state = c16.make_service()
        _, out = codec.attempt(svc.datagram_received, bytes(p["record"]["input"]), ("192.0.2.9", 4000), False)
        bad = out != "ok"
    if bad:
        ctx.violation({"clause": "replay", "source": "replay"}, p)
    print("replay: %s" % ("violation reproduced" if bad else "no violation on the current tree"))
    return 1 if bad else 0
