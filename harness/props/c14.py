"""C14: client subscription messages mirror the requested subscription set."""
import random

from .. import annenv, monpass, sdenv, tlc
from ..sdenv import FOREVER, cfg as config, hdr
from .common import Mode1, conformance, judge

# eventgroup name -> (service ids3, eventgroup id, local sockname, protocol, endpoint option name)
EGS = {
    "G1": ((0x1111, 1, 1), 1, ("192.0.2.100", 41001), hdr.L4Protocols.UDP, "l1"),
    "G2": ((0x1111, 1, 1), 2, ("2001:db8::100", 41002, 0, 0), hdr.L4Protocols.UDP, "l2"),
    "G3": ((0x2222, 1, 2), 1, ("192.0.2.100", 41003), hdr.L4Protocols.TCP, "l3"),
    "G4": ((0x3333, 7, 3), 5, ("2001:db8::100", 41004, 0, 0), hdr.L4Protocols.TCP, "l4"),
    "G5": ((0x1111, 1, 1), 1, ("192.0.2.100", 41003), hdr.L4Protocols.TCP, "l3"),      # the ids of G1, another local endpoint
}
SRVS = ["a1", "a2", "a3"]
BASE = ["G1", "G2", "G3", "G4", "G5"]      # the eventgroups of the generated histories (scale scenarios add more)
VARIANTS = {"R": dict(subTTL=6, refresh=2), "S": dict(subTTL=12, refresh=4), "F": dict(subTTL=FOREVER, refresh=0)}


def eg_obj(g):
    ids, egid, sockname, proto, _ = EGS[g]
    return config.Eventgroup(service_id=ids[0], instance_id=ids[1], major_version=ids[2], eventgroup_id=egid,
                             sockname=sockname, protocol=proto)


def name_entries(ev):
    """tx Subscribe entries -> eventgroup names (by ids + eventgroup id)"""
    rev = {(v[0], v[1], v[4]): k for k, v in EGS.items()}
    for e in ev:
        if e.get("op") == "tx":
            for en in e["es"]:
                if en["ty"] == "sub":
                    eps = [o for o in en["opts"] if o.startswith("l")]
                    en["g"] = rev.get((tuple(en["ids"]), en["eg"], eps[0] if eps else ""), "G?")
                    en["eps"] = [o for o in en["opts"]]
    return ev


def run_schedule(sched, var):
    v = VARIANTS[var]
    st = sdenv.Stack(tim=sdenv.timings(SUBSCRIBE_TTL=v["subTTL"], SUBSCRIBE_REFRESH_INTERVAL=v["refresh"] or None))
    sub = st.prot.subscriber

    def do(inp):
        ev = {k: x for k, x in inp.items() if k not in ("t", "j")}
        op = inp["op"]
        if op == "sub_start":
            st.call(ev, sub.start)
        elif op == "sub_stop":
            st.call(ev, sub.stop)
        elif op == "subscribe":
            st.call(ev, sub.subscribe_eventgroup, eg_obj(inp["g"]), sdenv.ADDR[inp["srv"]])
        elif op == "unsubscribe":
            st.call(ev, sub.stop_subscribe_eventgroup, eg_obj(inp["g"]), sdenv.ADDR[inp["srv"]])
        elif op == "defer":       # the application queues the call with call_soon: it runs among the library's callbacks of the next iteration
            st.call(ev, st.loop.call_soon, do, inp["e"])
    tmax = 0
    for inp in sched:
        st.loop.inject(inp["t"], (lambda i=inp: do(i)), inp.get("j", 0))
        tmax = max(tmax, inp["t"])
    ev, missed = st.finish(tmax + 2 * max(v["refresh"], 1) + 2)
    return name_entries(ev), missed


def gen(rng, n):
    """start/stop of the subscriber, subscribe / unsubscribe of (eventgroup, server) keys.  Most requests go to a few
    'hot' keys so that the same key is dropped and requested again, and many requests share one loop position (the
    same iteration of the event loop): that is where the order of the deferred sends matters."""
    from .anngen import positions
    alive, req, sched = False, set(), []
    hot_srv = rng.choice(SRVS)
    hot = [(g, hot_srv) for g in rng.sample(BASE, 2)] + [(rng.choice(BASE), rng.choice(SRVS))]

    busy = set()

    def toggle(t, j, k):
        if (t, j, k) in busy:
            return
        if k in req:
            req.discard(k)
            sched.append({"t": t, "j": j, "op": "unsubscribe", "g": k[0], "srv": k[1]})
        else:
            req.add(k)
            sched.append({"t": t, "j": j, "op": "subscribe", "g": k[0], "srv": k[1]})
    for (t, j) in positions(rng, n, gaps=(0, 0, 0, 0, 0, 0, 1, 1, 2, 3)):
        r = rng.random()
        if r < 0.18:
            sched.append({"t": t, "j": j, "op": "sub_stop" if alive else "sub_start"})
            alive = not alive
        elif r < 0.30:        # a stop-subscribe that the application has queued with call_soon, next to a request for the same key
            k = rng.choice(hot)   # (only stop-subscribes are queued: no duplicate subscribe can result; the key is left alone for the
            if (t, j, k) in busy:  #  rest of this loop position)
                continue
            if rng.random() < 0.3 and not alive:
                sched.append({"t": t, "j": j, "op": "sub_start"})
                alive = True
            sched.append({"t": t, "j": j, "op": "defer", "e": {"op": "unsubscribe", "g": k[0], "srv": k[1]}})
            if k in req:
                req.discard(k)
            else:
                sched.append({"t": t, "j": j, "op": "subscribe", "g": k[0], "srv": k[1]})
            busy.add((t, j, k))
        elif r < 0.45:        # a burst in one iteration: some request, then the same key flipped twice (or three times)
            toggle(t, j, rng.choice(hot))
            k = rng.choice(hot)
            for _ in range(rng.choice([2, 2, 3])):
                toggle(t, j, k)
        else:
            toggle(t, j, rng.choice(hot) if rng.random() < 0.75 else (rng.choice(BASE), rng.choice(SRVS)))
    return sched


def many_egs(n):
    """further eventgroups X0 .. X<n-1> of one service (scale scenarios: more entries than one message should carry)"""
    names = []
    for i in range(n):
        g = "X%d" % i
        EGS.setdefault(g, ((0x1003, 2, 2), 0x100 + i, ("192.0.2.100", 41001), hdr.L4Protocols.UDP, "l1"))
        names.append(g)
    return names


def scale_traces():
    """many eventgroups requested from one server: before start, while running, across refreshes and a stop"""
    out = []
    for n, var in ((36, "R"), (70, "F"), (33, "S")):
        gs = many_egs(n)
        half = n // 2
        sched = [{"t": 0, "j": 0, "op": "subscribe", "g": g, "srv": "a1"} for g in gs[:half]]
        sched.append({"t": 1, "j": 0, "op": "sub_start"})
        sched += [{"t": 2, "j": 0, "op": "subscribe", "g": g, "srv": "a1"} for g in gs[half:]]
        sched.append({"t": 2 + 3 * max(VARIANTS[var]["refresh"], 1), "j": 0, "op": "sub_stop"})
        ev, _ = run_schedule(sched, var)
        out.append({"cfg": mon_cfg(var), "ev": monpass.add_adv(ev), "sched": sched, "var": var,
                    "diag": {"variant": var, "family": "%d eventgroups for one server" % n}})
    return out


def mon_cfg(var):
    v = VARIANTS[var]
    return {"egs": {g: {"ep": x[4]} for g, x in EGS.items()}, "subTTL": v["subTTL"], "refresh": v["refresh"]}


def traces_for(seed, count, length):
    out = []
    for n in range(count):
        rng = random.Random("c14/%s/%s" % (seed, n))
        var = "RSF"[n % 3]
        sched = gen(rng, rng.randint(3, length))
        ev, _ = run_schedule(sched, var)
        out.append({"cfg": mon_cfg(var), "ev": monpass.add_adv(ev), "sched": sched, "var": var, "diag": {"variant": var}})
    return out


def payload(tr):
    return {"sched": tr["sched"], "var": tr["var"], "trace": tr["ev"]}


def spec_consts(var):
    v = VARIANTS[var]
    egs = "[" + ", ".join('%s |-> [ep |-> "%s"]' % (g, EGS[g][4]) for g in BASE) + "]"
    return {"Match": "<<>>", "Sw": "AllOff",
            "Cfg": "[maxId |-> 65535, subTTL |-> %d, refresh |-> %d, egs |-> %s] @@ CfgDefault" % (v["subTTL"], v["refresh"], egs)}


def check(ctx):
    m1 = Mode1(ctx, "MC_Ann")
    m1.holds("refresh 2, TTL 6", "C14_quick.cfg", None if ctx.quick else {"MaxEv = 4": "MaxEv = 6"}, timeout=3000)
    m1.holds("infinite TTL, no refresh", "C14_quick.cfg", dict({"C14_A": "C14_B"}, **({} if ctx.quick else {"MaxEv = 4": "MaxEv = 6"})), timeout=3000)
    m1.holds("calls queued by the application with call_soon (one key)", "C14_quick.cfg", {"C14_Inputs": "C14_InputsD"}, timeout=3000)
    m1.caught("SwSubOrder", "C14_quick.cfg")
    traces = traces_for(ctx.seed, ctx.pick(900, 9000), ctx.pick(10, 16))
    bad, ms = judge(ctx, "Mon_C14", traces + scale_traces(), "subscriber histories", payload)
    from .common import spec_to_code
    sim = spec_to_code(ctx, {"Inputs": "C14_Inputs", "Match": "<<>>", "Cfg": "[C14_A EXCEPT !.maxId = 65535]", "Sw": "AllOff",
                             "MaxEv": 7, "MaxIdle": 3, "MaxPerPoll": 2},
                       ctx.pick(25, 400), 90, lambda sched: run_schedule(sched, "R"), "Mon_C14", mon_cfg("R"))
    acc = total = 0
    for var in "RSF":
        a, t, _ = conformance(ctx, "SDTrace", spec_consts(var), [tr for tr in traces if tr["var"] == var][: ctx.pick(40, 300)])
        acc += a
        total += t
    cov = dict(states=m1.states, transitions=m1.trans, traces_validated_against_impl=acc, monitor_traces=len(traces),
               monitor_failures=bad, monitor_states=ms, conformance_traces=total, spec_drift=total - acc, tlc_runs=m1.runs, **sim,
               exhaustive=False,
               samples=[{"variant": traces[0]["var"], "schedule": traces[0]["sched"][:8], "trace": traces[0]["ev"][:16]}],
               rule="TLC: ServiceSubscriber of SD.tla (list, alive flag, deferred sends, refresh task with its hop structure) x "
                    "Mon_C14 (simulated server per destination) for all schedules of 4(-5) operations over 2 eventgroups x 2 "
                    "servers at every position around the refresh tick; real code: 4 eventgroups (IPv4/IPv6 x UDP/TCP local "
                    "endpoints) x 3 servers, finite TTL with refresh and infinite TTL without")
    return ctx.finish("model_checking", cov)


def replay(ctx, rep):
    p = rep["payload"]
    if any(i.get("g", "").startswith("X") for i in p["sched"]):
        many_egs(100)
    ev, _ = run_schedule(p["sched"], p["var"])
    tr = {"cfg": mon_cfg(p["var"]), "ev": monpass.add_adv(ev), "sched": p["sched"], "var": p["var"]}
    bad, _ = judge(ctx, "Mon_C14", [tr], "replay", payload)
    print("replay: %s" % ("violation reproduced" if bad else "no violation on the current tree"))
    return 1 if bad else 0
