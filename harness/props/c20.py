"""C20 (decode-encode-decode = decode) and the decoder half of C03 share one corpus: valid
encodings, an independent non-canonical encoder, byte-level mutations and raw random strings,
for SOME/IP messages, SD messages, SD entries and SD options."""
import random
import signal

from .. import codec, funcpass, tlc
from ..framework import Machinery
from ..sdenv import hdr


class Watchdog:
    def __enter__(self):
        def boom(*a):
            raise TimeoutError("decoder did not terminate")
        self.old = signal.signal(signal.SIGALRM, boom)
        signal.setitimer(signal.ITIMER_REAL, 5)
        return self

    def __exit__(self, *a):
        signal.setitimer(signal.ITIMER_REAL, 0)
        signal.signal(signal.SIGALRM, self.old)


def noncanonical_sd(rng):
    """legal but unusual layouts: non-zero reserved bytes, config tails, unreferenced options, unknown
    flag bits, unknown protocol numbers / option types, index fields with zero counts"""
    opts = []
    for _ in range(rng.randint(0, 5)):
        k = rng.randrange(5)
        if k == 0:      # configuration option (encoded here, not by the library): empty values, '=' in values, empty keys,
                        # garbage after the terminating zero, non-zero reserved byte
            strs = [rng.choice([b"a=b", b"k", b"flag=", b"=v", b"a==", b"x=1=2", b"key=" + b"v" * rng.randint(0, 40), b"K" * rng.randint(1, 60),
                                b"K" * rng.choice([253, 254, 255]), b"k=" + b"v" * rng.choice([251, 252, 253]), b"K" * 254 + b"="])
                    for _ in range(rng.randint(0, 4))]
            body = bytes([rng.choice([0, 0, rng.getrandbits(8)])]) + b"".join(bytes([len(x)]) + x for x in strs) + b"\x00" \
                + rng.choice([b"", b"", rng.randbytes(rng.randint(1, 4))])
            opts.append(len(body).to_bytes(2, "big") + b"\x01" + body)
        elif k == 1:    # IPv4 endpoint, reserved bytes set, unknown protocol
            body = bytes([rng.getrandbits(8)]) + rng.randbytes(4) + bytes([rng.getrandbits(8), rng.choice([6, 17, 0, 99])]) + rng.randbytes(2)
            opts.append(len(body).to_bytes(2, "big") + bytes([rng.choice([0x04, 0x14, 0x24])]) + body)
        elif k == 2:    # unknown option type
            body = rng.randbytes(rng.randint(0, 6))
            opts.append(len(body).to_bytes(2, "big") + bytes([rng.choice([0x00, 0x03, 0x05, 0x77, 0xFF])]) + body)
        elif k == 3:    # load balancing with reserved byte set
            body = bytes([rng.getrandbits(8)]) + rng.randbytes(4)
            opts.append(len(body).to_bytes(2, "big") + b"\x02" + body)
        else:           # IPv6 options, also with addresses of special form (v4-mapped, v4-compatible, loopback, link-local, multicast)
            addr = rng.choice([rng.randbytes(16), rng.randbytes(16), bytes(10) + b"\xff\xff" + rng.randbytes(4), bytes(12) + rng.randbytes(4),
                               bytes(15) + b"\x01", bytes(16), b"\xfe\x80" + bytes(6) + rng.randbytes(8), b"\xff\x02" + bytes(13) + b"\x01"])
            body = bytes([rng.getrandbits(8)]) + addr + bytes([rng.getrandbits(8), 17]) + rng.randbytes(2)
            opts.append(len(body).to_bytes(2, "big") + bytes([rng.choice([0x06, 0x16, 0x26])]) + body)
    n = len(opts)
    entries = b""
    for _ in range(rng.randint(0, 4)):
        ty = rng.choice([0, 1, 6, 7])
        no1 = rng.randint(0, min(n, 3))
        no2 = rng.randint(0, min(n, 2))
        oi1 = rng.randint(0, n - no1) if no1 else rng.choice([0, rng.randint(0, 255)])     # index with zero count: anything
        oi2 = rng.randint(0, n - no2) if no2 else rng.choice([0, rng.randint(0, 255)])
        val = rng.randbytes(4) if ty in (0, 1) else bytes([0, rng.randrange(16)]) + rng.randbytes(2)
        entries += bytes([ty, oi1, oi2, (no1 << 4) | no2]) + rng.randbytes(5) + rng.randbytes(3) + val
    ob = b"".join(opts)
    flags = rng.choice([0x00, 0x40, 0x80, 0xC0]) | rng.choice([0, 0, 1, 0x21, 0x3F])
    return bytes([flags]) + rng.randbytes(3) + len(entries).to_bytes(4, "big") + entries + len(ob).to_bytes(4, "big") + ob \
        + rng.choice([b"", b"", rng.randbytes(2)])


def corpus(ctx, rng):
    items = []      # (kind, bytes, n)
    for i in range(ctx.pick(500, 9000)):
        m = codec.rand_msg(rng, big=False)
        items.append(("msg", m.build() + rng.choice([b"", b"", rng.randbytes(5)]), 0))
        if i % 4 == 0:      # two messages back to back, the first one often a message with a well-known meaning
            first = codec.well_known(rng) if rng.random() < 0.6 else codec.rand_msg(rng)
            items.append(("msg", first.build() + codec.rand_msg(rng).build(), 0))
        s = codec.rand_sd(rng)
        try:
            sb = bytes(s.assign_option_indexes().build())
        except Exception:
            sb = b""
        items.append(("sd", sb + rng.choice([b"", b"", rng.randbytes(3)]), 0))
        items.append(("sd", noncanonical_sd(rng), 0))
        o = codec.rand_opt(rng)
        try:
            items.append(("option", o.build() + rng.choice([b"", rng.randbytes(4)]), 0))
        except Exception:
            pass
        if i % 3 == 0:      # one endpoint (address, protocol, port) in options of all three kinds, and every IP option body under every type
            a4, p4 = rng.randbytes(4), rng.randbytes(2)
            a6 = rng.randbytes(16)
            for tcode in (0x04, 0x14, 0x24, 0x06, 0x16, 0x26):
                items.append(("option", b"\x00\x09" + bytes([tcode, 0]) + a4 + b"\x00\x11" + p4, 0))
                items.append(("option", b"\x00\x15" + bytes([tcode, 0]) + a6 + b"\x00\x11" + p4, 0))
        nc = noncanonical_sd(rng)                          # single options of the independent encoder
        ol = int.from_bytes(nc[8 + int.from_bytes(nc[4:8], "big"):][:4], "big")
        if ol:
            items.append(("option", nc[12 + int.from_bytes(nc[4:8], "big"):][:ol], 0))
        if sb:
            el = int.from_bytes(sb[4:8], "big")
            if el >= 16:
                k = 8 + 16 * rng.randrange(el // 16)
                items.append(("entry", sb[k:k + 16] + rng.choice([b"", rng.randbytes(3)]), rng.choice([0, 1, 5, 30, 255, 270])))
        items.append(("entry", bytes([rng.choice([0, 1, 6, 7, 2, 255])]) + rng.randbytes(15), rng.choice([0, 3, 255, 300])))
        # eventgroup entries with exactly one of the twelve reserved bits above the counter set
        bit = 1 << rng.randint(20, 31)
        items.append(("entry", bytes([rng.choice([6, 7]), 0, 0, 0]) + rng.randbytes(8) + (bit | rng.getrandbits(20)).to_bytes(4, "big"), 0))
    base = list(items)
    for kind, b, n in base:                              # mutations of everything
        for _ in range(ctx.pick(2, 3)):
            items.append((kind, codec.mutate(rng, b), n))
    for _ in range(ctx.pick(300, 6000)):                 # raw random strings
        items.append((rng.choice(["msg", "sd", "option", "entry"]), rng.randbytes(rng.choice([0, 1, 2, 3, 11, 12, 15, 16, 17, 40, 200, 2048])), rng.choice([0, 4, 255])))
    return items


def value_j(kind, v):
    return {"msg": codec.msg_j, "sd": codec.sd_raw_j, "option": codec.opt_j, "entry": codec.entry_raw_j}[kind](v)


def parse(kind, b, n):
    if kind == "msg":
        return hdr.SOMEIPHeader.parse(b)
    if kind == "sd":
        return hdr.SOMEIPSDHeader.parse(b)
    if kind == "option":
        return hdr.SOMEIPSDOption.parse(b)
    return hdr.SOMEIPSDEntry.parse(b, n)


def record(kind, b, n):
    rec = {"kind": kind, "input": list(b), "n": n, "value": {}, "rest": [], "out2": "", "bytes2": [], "out3": "", "value3": {}, "rest3": []}
    with Watchdog():
        r, rec["out"] = codec.attempt(parse, kind, b, n)
    if r is None:
        return rec
    v, rest = r
    rec["value"], rec["rest"] = value_j(kind, v), list(rest)
    b2, rec["out2"] = codec.attempt(lambda: bytes(v.build()))
    if b2 is None:
        return rec
    rec["bytes2"] = list(b2)
    with Watchdog():
        r3, rec["out3"] = codec.attempt(parse, kind, b2, n)
    if r3 is not None:
        rec["value3"], rec["rest3"] = value_j(kind, r3[0]), list(r3[1])
    return rec


def records(ctx, tag):
    rng = random.Random("%s/%s" % (tag, ctx.seed))
    return [record(k, b, n) for k, b, n in corpus(ctx, rng)]


def check(ctx):
    res = tlc.run("MC_Wire", "Wire.cfg", timeout=1200)
    if res.error or res.timeout:
        raise Machinery("TLC failed on MC_Wire: %s" % (res.error or "timeout")[:500])
    if res.violated:
        ctx.violation({"clause": "design:" + res.violated, "source": "TLC laws"}, {"trace": res.trace})
    recs = [r for r in records(ctx, "c20") if r["out"] == "ok"]
    verdicts, st = funcpass.run("Wire", "CanonVerdict", recs, jobs=12)
    bad = 0
    for r, v in zip(recs, verdicts):
        if v:
            bad += 1
            ctx.violation({"clause": v.split(":")[0], "source": "parse/build/parse of " + r["kind"], "detail": v}, {"record": r})
    kinds = {k: sum(1 for r in recs if r["kind"] == k) for k in ("msg", "sd", "option", "entry")}
    cov = dict(states=res.distinct, transitions=res.generated, traces_validated_against_impl=len(recs) - bad, records=len(recs),
               record_states=st, accepted_by_kind=kinds, exhaustive=False,
               samples=[{k: (v if not isinstance(v, list) else v[:48]) for k, v in recs[3].items() if k in ("kind", "input", "bytes2", "out2", "out3")}],
               rule="TLC: decode o encode o decode = decode laws of Wire.tla on the enumerated boundary domain; real code: every "
                    "ACCEPTED input of a corpus of valid encodings, an independent non-canonical encoder (reserved bytes, config "
                    "tails, unreferenced options, unknown flag bits / protocols / option types, indexes with zero counts), byte "
                    "mutations and random strings is re-encoded and decoded again; TLC compares the second decode with the TLA+ "
                    "decoder's value of the input, the rest, and for SOME/IP messages the bytes with the consumed input")
    return ctx.finish("model_checking", cov)


def replay(ctx, rep):
    r = rep["payload"]["record"]
    rec = record(r["kind"], bytes(r["input"]), r["n"])
    v, _ = funcpass.run("Wire", "CanonVerdict", [rec])
    if v[0]:
        ctx.violation({"clause": v[0].split(":")[0], "source": "replay"}, {"record": rec})
    print("replay: %s" % ("violation reproduced" if v[0] else "no violation on the current tree"))
    return 1 if v[0] else 0
