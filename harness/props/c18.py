"""C18: stream and datagram framing agree under arbitrary segmentation (SOMEIPHeader.read)."""
import asyncio
import itertools
import random

from .. import codec, funcpass, tlc
from ..framework import Machinery
from ..sdenv import hdr
from ..vloop import new_loop


def read_stream(data, cuts, consumer_first):
    """feed `data` cut at the positions `cuts` into an asyncio.StreamReader, one chunk per loop tick,
    the consumer task running from the start (consumer_first) or only after everything was fed"""
    loop = new_loop()
    results = []

    async def consume(reader):
        while True:
            try:
                m = await hdr.SOMEIPHeader.read(reader)
                results.append(["msg", codec.msg_j(m)])
            except hdr.ParseError:
                results.append(["parse"])
                return
            except asyncio.IncompleteReadError:
                results.append(["incomplete"])
                return
            except BaseException as exc:      # noqa: B902
                results.append(["other:" + type(exc).__name__])
                return

    async def main():
        reader = asyncio.StreamReader()
        task = loop.create_task(consume(reader)) if consumer_first else None
        pos = 0
        for c in list(cuts) + [len(data)]:
            if c > pos:
                reader.feed_data(data[pos:c])
                pos = c
                if consumer_first:
                    await asyncio.sleep(1)          # the consumer runs between two chunks
        reader.feed_eof()
        if task is None:
            task = loop.create_task(consume(reader))
        await asyncio.wait_for(task, 100)
    try:
        loop.run_until_complete(main())
    except BaseException as exc:      # noqa: B902
        results.append(["other:" + type(exc).__name__])
    loop.shutdown()
    return results


def make_stream(rng, big=False):
    n = rng.choice([0, 1, 1, 2, 3, 5, 8])
    msgs = []
    for _ in range(n):
        m = codec.rand_msg(rng)
        if big or rng.random() < 0.15:
            m = hdr.SOMEIPHeader(service_id=m.service_id, method_id=m.method_id, client_id=m.client_id, session_id=m.session_id,
                                 interface_version=m.interface_version, message_type=m.message_type, return_code=m.return_code,
                                 payload=rng.randbytes(rng.choice([255, 256, 1000, 4095, 4096])))
        msgs.append(m.build())
    data = bytearray(b"".join(msgs))
    kind = rng.random()
    if data and kind < 0.3:                           # cut short at a random position
        del data[rng.randrange(len(data)):]
    elif msgs and kind < 0.5:                         # one corrupted header field in one message
        k = rng.randrange(len(msgs))
        off = sum(len(x) for x in msgs[:k])
        field = rng.choice([12, 14, 15, 4, 5, 6, 7])
        data[off + field] = rng.choice([0, 2, 3, 0x7F, 0xFF, (data[off + field] + 1) & 0xFF])
        if rng.random() < 0.5 and len(msgs[k]) > 17:   # ... and the stream ends inside the payload of that very message
            del data[off + rng.randint(16, len(msgs[k]) - 1):]
    return bytes(data)


def records(ctx):
    rng = random.Random("c18/%s" % ctx.seed)
    recs = []
    # short streams: every single cut position (and every pair of cut positions)
    for _ in range(ctx.pick(6, 40)):
        msgs = [codec.rand_msg(rng) for _ in range(rng.randint(1, 3))]
        data = b"".join(hdr.SOMEIPHeader(service_id=m.service_id, method_id=m.method_id, client_id=m.client_id, session_id=m.session_id,
                                         interface_version=1, message_type=m.message_type, return_code=m.return_code,
                                         payload=rng.randbytes(rng.choice([0, 1, 3]))).build() for m in msgs)
        data = data[: min(len(data), 64)]
        if rng.random() < 0.3:
            data = data[: rng.randrange(len(data) + 1)]
        for c in range(1, len(data)):
            recs.append((data, (c,), True))
        pairs = list(itertools.combinations(range(1, len(data)), 2))
        for cc in (pairs if not ctx.quick else rng.sample(pairs, min(len(pairs), 150))):
            recs.append((data, cc, rng.random() < 0.8))
    # longer streams: random cuts incl. 1-byte chunks
    for i in range(ctx.pick(250, 4000)):
        data = make_stream(rng)
        mode = rng.random()
        if mode < 0.25 and len(data) <= 300:
            cuts = tuple(range(1, len(data)))                 # 1-byte chunks
        else:
            k = rng.choice([0, 1, 2, 3, 6, 12])
            cuts = tuple(sorted(rng.sample(range(1, max(2, len(data))), min(k, max(0, len(data) - 1))))) if len(data) > 1 else ()
        recs.append((data, cuts, rng.random() < 0.8))
    out = []
    for data, cuts, first in recs:
        out.append({"input": list(data), "cuts": list(cuts), "consumer_first": first, "results": read_stream(data, cuts, first)})
    return out


def check(ctx):
    res = tlc.run("Stream", "C18.cfg", timeout=1200)
    if res.error or res.timeout:
        raise Machinery("TLC failed on Stream: %s" % (res.error or "timeout")[:500])
    if res.violated:
        ctx.violation({"clause": "design:" + res.violated, "source": "TLC Stream.tla"}, {"trace": res.trace})
    mut = tlc.run("Stream", tlc.cfg_text("C18.cfg").replace("ShortReadIsEof = FALSE", "ShortReadIsEof = TRUE"), timeout=600)
    if not mut.violated:
        raise Machinery("vacuity: the ShortReadIsEof mutant of Stream.tla is not caught")
    states, trans = res.distinct, res.generated
    if not ctx.quick:
        r2 = tlc.run("Stream", tlc.cfg_text("C18.cfg").replace("MaxMsgs = 3", "MaxMsgs = 4").replace("MaxBody = 2", "MaxBody = 3"), timeout=3000)
        if r2.violated:
            ctx.violation({"clause": "design:" + r2.violated, "source": "TLC Stream.tla 4x3"}, {"trace": r2.trace})
        states += r2.distinct
        trans += r2.generated
    recs = records(ctx)
    verdicts, st = funcpass.run("Wire", "StreamVerdict", [{"input": r["input"], "results": r["results"]} for r in recs], jobs=12)
    bad = 0
    for r, v in zip(recs, verdicts):
        if v:
            bad += 1
            ctx.violation({"clause": v, "source": "SOMEIPHeader.read", "cuts": r["cuts"][:8], "consumer_first": r["consumer_first"],
                           "results": [x[0] for x in r["results"]][:8]}, {"record": r})
    cov = dict(states=states, transitions=trans, traces_validated_against_impl=len(recs) - bad, records=len(recs), record_states=st,
               one_byte_chunkings=sum(1 for r in recs if len(r["cuts"]) == len(r["input"]) - 1 and len(r["input"]) > 2),
               exhaustive=False,
               samples=[{"input": recs[0]["input"][:40], "cuts": recs[0]["cuts"], "results": [x[0] for x in recs[0]["results"]]}],
               rule="TLC: Stream.tla -- every stream of <= 3 (thorough: 4) abstract messages incl. invalid headers and every "
                    "truncation, every segmentation and every interleaving of reader and transport: the results equal datagram "
                    "decoding; a spec mutant (short read taken for EOF) is caught; real code: SOMEIPHeader.read on an "
                    "asyncio.StreamReader, every cut position and pairs of cut positions for short streams, 1-byte chunks, random "
                    "cuts for 0..8 messages with payloads up to 4096, truncations, one corrupted header field; consumer task "
                    "running between chunks or after the end; TLC compares with Wire!StreamResults of the concatenated bytes")
    return ctx.finish("model_checking", cov)


def replay(ctx, rep):
    r = rep["payload"]["record"]
    res = read_stream(bytes(r["input"]), r["cuts"], r["consumer_first"])
    v, _ = funcpass.run("Wire", "StreamVerdict", [{"input": r["input"], "results": res}])
    if v[0]:
        ctx.violation({"clause": v[0], "source": "replay"}, {"record": dict(r, results=res)})
    print("replay: %s" % ("violation reproduced" if v[0] else "no violation on the current tree"))
    return 1 if v[0] else 0
