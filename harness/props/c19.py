"""C19: service and eventgroup matching obeys the wildcard laws (config.py)."""
import itertools
import random

from .. import funcpass, tlc
from ..framework import Machinery
from ..sdenv import cfg as config, hdr

WILD = {"iid": 0xFFFF, "maj": 0xFF, "min": 0xFFFFFFFF}
VAL = ["c1", "c2", "ANY"]


def concretisations(rng, extra):
    """(c1, c2) per field: plain, neighbours of the wildcard constants, random full range"""
    out = [{"sid": (0x1111, 0x2222), "iid": (1, 2), "maj": (1, 2), "min": (1, 2)},
           {"sid": (0, 0xFFFF), "iid": (0, 0xFFFE), "maj": (0, 0xFE), "min": (0, 0xFFFFFFFE)},
           {"sid": (0xFFFE, 0xFFFF), "iid": (0xFFFE, 0), "maj": (0xFE, 1), "min": (0xFFFFFFFE, 0x80000000)},
           # concrete values that look like the wildcard of another, narrower field (0xFF, 0xFFFF are ordinary instance ids / minors)
           {"sid": (0x00FF, 0xFFFF), "iid": (0x00FF, 2), "maj": (0x0F, 1), "min": (0xFF, 0xFFFF)},
           {"sid": (0xFF, 0xFF00), "iid": (3, 0x00FF), "maj": (1, 0x7F), "min": (0xFFFF, 0xFFFFFF)}]
    for _ in range(extra):
        def two(bits, w):
            a = rng.getrandbits(bits)
            b = rng.getrandbits(bits)
            while a == w or b == w or a == b:
                a, b = rng.getrandbits(bits), rng.getrandbits(bits)
            return (a, b)
        out.append({"sid": two(16, None), "iid": two(16, 0xFFFF), "maj": two(8, 0xFF), "min": two(32, 0xFFFFFFFF)})
    return out


def conc(d, c):
    def v(field):
        x = d[field]
        return WILD[field] if x == "ANY" else c[field][0 if x == "c1" else 1]
    return c["sid"][0 if d["sid"] == "c1" else 1], v("iid"), v("maj"), v("min")


def descs():
    for sid, iid, maj, mn in itertools.product(["c1", "c2"], VAL, VAL, VAL):
        yield {"sid": sid, "iid": iid, "maj": maj, "min": mn}


T = hdr.SOMEIPSDEntryType


def entry(ty, ids, ttl=3):
    return hdr.SOMEIPSDEntry(sd_type=ty, service_id=ids[0], instance_id=ids[1], major_version=ids[2], ttl=ttl, minver_or_counter=ids[3])


def records(ctx):
    rng = random.Random("c19/%s" % ctx.seed)
    recs = []
    ds = list(descs())
    for c in concretisations(rng, ctx.pick(1, 6)):
        for a in ds:
            sa = config.Service(*conc(a, c))
            for b in ds:
                ib = conc(b, c)
                recs.append({"op": "matches_offer", "a": a, "b": b, "res": sa.matches_offer(entry(T.OfferService, ib))})
                recs.append({"op": "matches_find", "a": a, "b": b, "res": sa.matches_find(entry(T.FindService, ib))})
                recs.append({"op": "matches_service", "a": a, "b": b, "res": sa.matches_service(config.Service(*ib))})
                if b["min"] == "c1":
                    for egs, eg in (([1], 1), ([1], 2), ([], 1), ([1, 7], 7)):
                        s2 = config.Service(*conc(a, c), eventgroups=frozenset(egs))
                        e = hdr.SOMEIPSDEntry(sd_type=T.Subscribe, service_id=ib[0], instance_id=ib[1], major_version=ib[2], ttl=3,
                                              minver_or_counter=(rng.randrange(16) << 16) | eg)
                        recs.append({"op": "matches_subscribe", "a": a, "egs": egs,
                                     "b": {"sid": b["sid"], "iid": b["iid"], "maj": b["maj"], "eg": eg}, "res": s2.matches_subscribe(e)})
                    if a["min"] == "c1":
                        g = config.Eventgroup(service_id=conc(a, c)[0], instance_id=conc(a, c)[1], major_version=conc(a, c)[2],
                                              eventgroup_id=5, sockname=("192.0.2.1", 3000), protocol=hdr.L4Protocols.UDP)
                        r = g.for_service(config.Service(*conc(b, c)))
                        rec = {"op": "for_service", "a": {"sid": a["sid"], "iid": a["iid"], "maj": a["maj"]}, "b": dict(b, min="c1"),
                               "ok": r is not None, "iid": "", "maj": ""}
                        if r is not None:
                            inv = {conc(b, c)[1]: b["iid"], conc(b, c)[2]: b["maj"]}
                            rec["iid"] = b["iid"] if r.instance_id == conc(b, c)[1] else "other"
                            rec["maj"] = b["maj"] if r.major_version == conc(b, c)[2] else "other"
                            if (r.service_id, r.eventgroup_id, r.sockname, r.protocol) != (g.service_id, 5, g.sockname, g.protocol):
                                rec["iid"] = "other"
                        recs.append(rec)
        # conversions keep ids, versions and options
        opts1 = (hdr.SOMEIPSDLoadBalancingOption(1, 2),)
        opts2 = (hdr.SOMEIPSDConfigOption((("a", "b"),)), hdr.SOMEIPSDLoadBalancingOption(3, 4))
        for a in ds:
            s = config.Service(*conc(a, c), options_1=opts1, options_2=opts2, eventgroups=frozenset([1]))
            for ttl in (0, 3, 0xFFFFFF):
                e = s.create_offer_entry(ttl)
                back = config.Service.from_offer_entry(e)
                same = (back.service_id, back.instance_id, back.major_version, back.minor_version, back.options_1, back.options_2) == \
                       (s.service_id, s.instance_id, s.major_version, s.minor_version, s.options_1, s.options_2) \
                    and e.ttl == ttl and e.sd_type == T.OfferService
                recs.append({"op": "convert", "what": "offer_round_trip", "same": bool(same)})
                # a second description with the same ids and versions but other options keeps ITS options
                s_other = config.Service(*conc(a, c), options_1=opts2, options_2=(), eventgroups=frozenset([1]))
                e2 = s_other.create_offer_entry(ttl)
                back2 = config.Service.from_offer_entry(e2)
                recs.append({"op": "convert", "what": "options_of_an_equal_description",
                             "same": bool((back2.options_1, back2.options_2) == (opts2, ()) and
                                          (config.Service.from_offer_entry(s.create_offer_entry(ttl)).options_1 == opts1))})
                # the same options, divided differently between the two runs: every division comes back as it went in, whatever was
                # converted before (all divisions of a three-option sequence, one after the other, in one process)
                seq3 = opts1 + opts2
                for k1 in range(4):
                    sx = config.Service(*conc(a, c), options_1=seq3[:k1], options_2=seq3[k1:], eventgroups=frozenset())
                    bx = config.Service.from_offer_entry(sx.create_offer_entry(ttl))
                    recs.append({"op": "convert", "what": "division_of_the_options_between_the_runs",
                                 "same": bool((bx.options_1, bx.options_2) == (seq3[:k1], seq3[k1:]))})
                import dataclasses
                for other in ds:
                    d2 = dataclasses.replace(s, **dict(zip(("service_id", "instance_id", "major_version", "minor_version"), conc(other, c))),
                                             options_1=opts2, options_2=())
                    b2 = config.Service.from_offer_entry(d2.create_offer_entry(ttl))
                    recs.append({"op": "convert", "what": "offer_of_a_derived_description",
                                 "same": bool((b2.service_id, b2.instance_id, b2.major_version, b2.minor_version, b2.options_1, b2.options_2)
                                              == conc(other, c) + (opts2, ()))})
                    break_after = other["sid"] == "c2" and other["iid"] == "ANY"
                    if break_after:
                        break
                f = s.create_find_entry(ttl)
                same = (f.sd_type, f.service_id, f.instance_id, f.major_version, f.minver_or_counter, f.ttl, f.options_1, f.options_2) == \
                       (T.FindService, s.service_id, s.instance_id, s.major_version, s.minor_version, ttl, (), ())
                recs.append({"op": "convert", "what": "find_entry_fields", "same": bool(same)})
    return recs


def check(ctx):
    res = tlc.run("MC_C19", "C19.cfg", timeout=600)
    if res.error or res.timeout:
        raise Machinery("TLC failed on MC_C19: %s" % (res.error or "timeout")[:500])
    if res.violated:
        ctx.violation({"clause": "design:" + res.violated, "source": "TLC laws"}, {"trace": res.trace})
    recs = records(ctx)
    verdicts, st = funcpass.run("Match", "MatchVerdict", recs, jobs=12)
    bad = 0
    for r, v in zip(recs, verdicts):
        if v:
            bad += 1
            ctx.violation({"clause": v, "source": "config." + r["op"], "a": r.get("a"), "b": r.get("b")}, {"record": r})
    cov = dict(states=res.distinct, transitions=res.generated, traces_validated_against_impl=len(recs) - bad, records=len(recs),
               record_states=st, by_op={o: sum(1 for r in recs if r["op"] == o) for o in sorted({r["op"] for r in recs})},
               exhaustive=True, samples=[recs[0], recs[1], next(r for r in recs if r["op"] == "for_service")],
               rule="TLC: all 54 x 54 pairs of descriptions over {c1, c2, ANY} per field (one state per pair): symmetry, monotonicity "
                    "under wildcarding, find/offer duality, subscribe rule, for_service rule; real code: every row of the truth "
                    "tables of matches_offer / matches_find / matches_service / matches_subscribe / for_service evaluated on the "
                    "real functions under several concretisations (plain, neighbours of the wildcard constants 0xFFFE / 0xFE / "
                    "0xFFFFFFFE, random full range) and compared by TLC with Match.tla; offer/find entry conversions")
    return ctx.finish("model_checking", cov)


def replay(ctx, rep):
    print("replay: the truth tables are enumerated completely; re-run ./check C19")
    return check(ctx)
