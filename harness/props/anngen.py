"""schedule generators and the shared check skeleton for the announcer properties"""
import random

from .. import annenv, monpass
from .common import Mode1, conformance, judge

# timing variants (ticks): mirror C10_A..D / C12_A,B of spec/MC_Ann.tla plus wider ones for the real code
TIMINGS = {
    "A": annenv.tcfg(collect=0, initMin=0, initMax=0, reps=0, cyclic=4, rrMin=0, rrMax=0),
    "B": annenv.tcfg(collect=1, initMin=0, initMax=0, reps=1, cyclic=4, rrMin=1, rrMax=2),
    "C": annenv.tcfg(collect=0, initMin=1, initMax=2, reps=2, cyclic=0, rrMin=0, rrMax=0),
    "D": annenv.tcfg(collect=1, initMin=1, initMax=2, reps=0, cyclic=0, rrMin=1, rrMax=1),
    "E": annenv.tcfg(collect=0, initMin=1, initMax=3, reps=3, base=2, cyclic=16, rrMin=0, rrMax=2, annTTL=48),
    "F": annenv.tcfg(collect=1, initMin=0, initMax=2, reps=4, base=2, cyclic=5, rrMin=0, rrMax=0, annTTL=16777215),
    "B0": annenv.tcfg(collect=1, cyclic=4),       # = C06_B of SDConfigs.tla
    "long": annenv.tcfg(cyclic=0, reps=0, collect=0),     # one offer, then silence: histories that span days
}


def positions(rng, n, gaps=(0, 0, 0, 1, 1, 2, 3, 5)):
    t, out = 0, []
    for _ in range(n):
        dt = rng.choice(gaps)
        t += dt
        j = rng.choice([0, 0, 1, 2])
        if dt == 0 and out:
            j = max(j, out[-1][1])
        out.append((t, j))
    return out


class Sids:
    """session ids of the environment peers; evidence of a reboot only when asked for"""

    def __init__(self):
        self.c = {}

    def next(self, src, mc, reboot=False):
        k = (src, mc)
        if reboot or k not in self.c:
            self.c[k] = 1
        else:
            self.c[k] += 1
        return self.c[k], True


def lifecycle_history(rng, n, insts, tc, with_find=True, with_sub=False, ann0=None, allow_stop_twice=True, find_share=0.3, defer_share=0.0):
    """random start/stop/announce/find(/subscribe) history; returns sched"""
    sids = Sids()
    started = False
    ann = list(insts if ann0 is None else ann0)
    sched = []
    multi_rr = tc["rrMin"] != tc["rrMax"]
    cl_t = -1
    hold = None
    pool = []
    # the peers of a history: two IPv4 hosts, or (one history in five) two peers that differ only in their IPv6 scope id
    peers = ["a4", "a5"] if rng.random() < 0.2 else ["a1", "a2"]
    for (t, j) in positions(rng, n):
        r = rng.random()
        if t == cl_t and r < 0.44:
            r = 0.9      # the connection loss is applied one iteration later: no life-cycle call in that window
        if started and with_find and not with_sub and r < 0.10 and (t, j) != hold:
            # several requests from ONE requester whose answers are still pending when the offer is withdrawn
            src = rng.choice(peers)
            for _ in range(rng.choice([2, 2, 3])):
                mc = rng.random() < 0.6
                sid, rb = sids.next(src, mc)
                sched.append({"t": t, "j": j, "op": "rx", "src": src, "mc": mc, "sid": sid, "rb": rb, "uc": True,
                              "es": [{"ty": "find", "svc": rng.choice(["f1", "f1", "f1x", "fz"]), "ttl": 3, "opts": []}]})
            if rng.random() < 0.5 and len(insts) > 1 and ann:
                i = rng.choice(ann)
                ann.remove(i)
                sched.append({"t": t, "j": j, "op": "stop_announce", "inst": i})
            else:
                sched.append({"t": t, "j": j, "op": "ann_stop"})
                started = False
                if rng.random() < 0.5:      # ... and offered again at once: the instance is back in its initial wait phase
                    sched.append({"t": t, "j": j, "op": "ann_start"})
                    started = True
        elif r < 0.32 and (t, j) == hold:
            pass          # (a queued life-cycle call is pending at this loop position: no second one next to it)
        elif r < 0.32:
            if started and defer_share and rng.random() < defer_share:
                # the application queues the stop with call_soon: it runs among the library's callbacks of the next iteration
                sched.append({"t": t, "j": j, "op": "defer", "e": {"op": "ann_stop"}})
                started = False
                hold = (t, j)
            elif started:
                sched.append({"t": t, "j": j, "op": "ann_stop"})
                started = False
            elif allow_stop_twice and rng.random() < 0.15:
                sched.append({"t": t, "j": j, "op": "ann_stop"})
            else:
                sched.append({"t": t, "j": j, "op": "ann_start"})
                started = True
        elif r < 0.44 and (t, j) == hold:
            pass
        elif r < 0.40 and len(insts) > 1:
            i = rng.choice(insts)
            if i in ann:
                ann.remove(i)
                sched.append({"t": t, "j": j, "op": "stop_announce", "inst": i})
            else:
                ann.append(i)
                sched.append({"t": t, "j": j, "op": "announce", "inst": i})
        elif r < 0.44:
            sched.append({"t": t, "j": j, "op": "connlost"})
            started = False
            cl_t = t
        else:
            src = rng.choice(peers)
            mc = rng.random() < 0.5
            sid, rb = sids.next(src, mc, reboot=with_sub and rng.random() < 0.12)
            es = []
            if with_find and (not with_sub or rng.random() < find_share):
                k = 1 if (mc and multi_rr) else rng.choice([1, 1, 2])
                for _ in range(k):
                    es.append({"ty": "find", "svc": rng.choice(["f1", "f1", "f1x", "f1m", "f1i", "f1v", "f3", "f4", "f4x", "fz"]),
                               "ttl": 3, "opts": []})
            if with_sub:
                for _ in range(rng.choice([1, 1, 2, 3])):
                    es.append(sub_entry(rng, pool))
            sched.append({"t": t, "j": j, "op": "rx", "src": src, "mc": mc if not with_sub else rng.random() < 0.12,
                          "sid": sid, "rb": rb, "uc": rng.random() > 0.04, "es": es})
    return sched


_POOL = []


def sub_entry(rng, pool=None):
    pool = _POOL if pool is None else pool
    if pool and rng.random() < 0.6:          # come back to a subscription used before (refresh / stop / other TTL)
        e = dict(rng.choice(pool))
        e["ttl"] = rng.choice([0, 1, 2, 3, 3, 16777215, 16777215])
        e["acc"] = rng.random() < 0.8
        return e
    e = _fresh_sub(rng)
    pool.append(e)
    return e


def _fresh_sub(rng):
    svc = rng.choice(["s1", "s1", "s1", "s2", "s3", "s4"])
    eps = rng.choice([["e1"], ["e1"], ["e2"], ["e3"], ["e1", "e2"], [], ["e4"], ["e1", "e4"]])      # e4: a TCP endpoint
    return {"ty": "sub", "svc": svc, "eg": rng.choice([1, 1, 2, 3]), "ctr": rng.choice([0, 0, 1, 7, 15]),
            "eps": sorted(eps), "ttl": rng.choice([0, 1, 2, 3, 3, 16777215]), "opts": rng.choice([[], [], ["x1"]]),
            "acc": rng.random() < 0.7}


def sub_lifecycle_family():
    """one subscription key, one subscriber: rejected then accepted; ended by a stop of the service / the announcer / a lost
    connection and subscribed again after the restart; refreshed by a Subscribe the listener would reject as a new one -- over
    every TTL pair and both collection settings.  (Timers of the earlier attempt must not touch the later subscription.)"""
    out = []
    sub = {"ty": "sub", "svc": "s1", "eg": 1, "ctr": 0, "eps": ["e1"], "opts": []}

    def rx(t, j, sid, ttl, acc):
        return {"t": t, "j": j, "op": "rx", "src": "a1", "mc": False, "sid": sid, "rb": True, "uc": True, "es": [dict(sub, ttl=ttl, acc=acc)]}
    for v in ("A", "B0"):
        tc = TIMINGS[v]
        for a in (2, 3):
            for b in (5, 16777215):
                scen = {"nak_then_ack": [rx(2, 0, 1, a, False), rx(3, 0, 2, b, True), rx(3 + a, 0, 3, b, False)]}
                for kind, stop, start, dt in (("ann", {"op": "ann_stop"}, {"op": "ann_start"}, 0),
                                              ("inst", {"op": "stop_announce", "inst": "I1"}, {"op": "announce", "inst": "I1"}, 0),
                                              ("connlost", {"op": "connlost"}, {"op": "ann_start"}, 1)):
                    scen["sub_stop_%s_sub" % kind] = [rx(2, 0, 1, a, True), dict(stop, t=3, j=0), dict(start, t=3 + dt, j=1),
                                                      rx(4 + dt, 0, 2, b, True), rx(3 + a, 2, 3, b, False)]
                for name, steps in scen.items():
                    sched = [{"t": 0, "j": 0, "op": "ann_start"}] + steps
                    rand = [0] * 6
                    ev, _ = annenv.run_schedule(sched, tc, ["I1"], ann0=["I1"], rand=list(rand), t_extra=14)
                    cfg = annenv.mon_cfg(tc, ["I1"], ["I1"])
                    cfg["dsts"] = ["mc", "a1", "a2", "a3", "a4", "a5"]
                    out.append({"cfg": cfg, "ev": monpass.add_adv(ev), "sched": sched, "variant": v, "ann0": ["I1"], "rand": rand,
                                "insts": ["I1"], "t_extra": 14, "diag": {"variant": v, "family": name}})
    # the application withdraws the service from inside client_unsubscribed, while the subscriptions of a rebooted peer are removed
    for v in ("A", "B0"):
        tc = TIMINGS[v]
        for n_subs in (1, 2):
            for how in ("reboot", "stop_sub", "expire"):
                subs = [dict(sub, eg=g, ttl=3, acc=True) for g in (1, 2)[:n_subs]]
                sched = [{"t": 0, "j": 0, "op": "arm_withdraw", "inst": "I1"}, {"t": 0, "j": 0, "op": "ann_start"},
                         {"t": 2, "j": 0, "op": "rx", "src": "a1", "mc": False, "sid": 5, "rb": True, "uc": True, "es": subs},
                         {"t": 2, "j": 1, "op": "rx", "src": "a2", "mc": False, "sid": 1, "rb": True, "uc": True, "es": [dict(sub, ttl=16777215, acc=True)]}]
                if how == "reboot":
                    sched.append({"t": 3, "j": 0, "op": "rx", "src": "a1", "mc": False, "sid": 1, "rb": True, "uc": True, "es": []})
                elif how == "stop_sub":
                    sched.append({"t": 3, "j": 0, "op": "rx", "src": "a1", "mc": False, "sid": 6, "rb": True, "uc": True, "es": [dict(subs[0], ttl=0)]})
                rand = [0] * 6
                ev, _ = annenv.run_schedule(sched, tc, ["I1"], ann0=["I1"], rand=list(rand), t_extra=12)
                ev = [e for e in ev if not (e.get("k") == "in" and e.get("op") == "arm_withdraw")]
                cfg = annenv.mon_cfg(tc, ["I1"], ["I1"])
                cfg["dsts"] = ["mc", "a1", "a2", "a3", "a4", "a5"]
                out.append({"cfg": cfg, "ev": monpass.add_adv(ev), "sched": sched, "variant": v, "ann0": ["I1"], "rand": rand,
                            "insts": ["I1"], "t_extra": 12, "diag": {"variant": v, "family": "service withdrawn from inside client_unsubscribed: " + how}})
    # a subscription accepted while the instance is still in its initial wait phase; the service is stopped before its first offer
    for v in ("D", "E", "C"):
        tc = TIMINGS[v]
        for init in range(max(1, tc["initMin"]), tc["initMax"] + 1):
            for ttl in (3, 16777215):
                for kind, stop in (("ann", {"op": "ann_stop"}), ("inst", {"op": "stop_announce", "inst": "I1"}), ("connlost", {"op": "connlost"})):
                    sched = [{"t": 0, "j": 0, "op": "ann_start"}, rx(0, 1, 1, ttl, True), dict(stop, t=init - 1 if init > 1 else 0, j=2),
                             {"t": init + 2, "j": 0, "op": "ann_start"}, rx(init + 4, 0, 2, ttl, True)]
                    if kind == "inst":
                        sched[3] = {"t": init + 2, "j": 0, "op": "announce", "inst": "I1"}
                    rand = [init, init, init, init]
                    ev, _ = annenv.run_schedule(sched, tc, ["I1"], ann0=["I1"], rand=list(rand), t_extra=14)
                    cfg = annenv.mon_cfg(tc, ["I1"], ["I1"])
                    cfg["dsts"] = ["mc", "a1", "a2", "a3", "a4", "a5"]
                    out.append({"cfg": cfg, "ev": monpass.add_adv(ev), "sched": sched, "variant": v, "ann0": ["I1"], "rand": rand,
                                "insts": ["I1"], "t_extra": 14, "diag": {"variant": v, "family": "subscribed in the initial wait, stopped before the first offer: " + kind}})
    return out


def _fam(sched, v, name, t_extra=14, insts=("I1",)):
    tc = TIMINGS[v]
    insts = list(insts)
    rand = [0] * 6
    ev, _ = annenv.run_schedule(sched, tc, insts, ann0=insts, rand=list(rand), t_extra=t_extra)
    ev = [e for e in ev if not (e.get("k") == "in" and e.get("op") in ("arm_withdraw", "arm_raise"))]
    cfg = annenv.mon_cfg(tc, insts, insts)
    cfg["dsts"] = ["mc", "a1", "a2", "a3", "a4", "a5"]
    return {"cfg": cfg, "ev": monpass.add_adv(ev), "sched": sched, "variant": v, "ann0": insts, "rand": rand,
            "insts": insts, "t_extra": t_extra, "diag": {"variant": v, "family": name}}


def shared_eventgroup_family():
    """two subscribers (different SD addresses) hold the same eventgroup of one instance; one of them sends a StopSubscribe that
    names no endpoint option (it matches none of ITS subscriptions, or its own option-less one): the other subscriber keeps its
    subscription"""
    out = []
    sub = {"ty": "sub", "svc": "s1", "eg": 1, "ctr": 0, "opts": [], "acc": True}

    def rx(t, j, src, sid, es):
        return {"t": t, "j": j, "op": "rx", "src": src, "mc": False, "sid": sid, "rb": True, "uc": True, "es": es}
    for v in ("A", "B0", "F"):
        for ttl in (3, 16777215):
            for own in (["e1"], []):
                for other in (["e2"], ["e4"], []):
                    sched = [{"t": 0, "j": 0, "op": "ann_start"},
                             rx(2, 0, "a1", 1, [dict(sub, eps=own, ttl=ttl)]), rx(2, 1, "a2", 1, [dict(sub, eps=other, ttl=ttl)]),
                             rx(3, 0, "a1", 2, [dict(sub, eps=[], ttl=0)]),
                             rx(4, 0, "a2", 2, [dict(sub, eps=other, ttl=ttl)])]
                    out.append(_fam(sched, v, "StopSubscribe without endpoint option, eventgroup shared with another subscriber (%s / %s)" % (own, other), t_extra=10))
    return out


def raising_listener_family():
    """the application's client_unsubscribed fails while the instance that holds the subscription is being stopped (stop of the
    announcer / of the instance / lost connection), in every phase of the offer life cycle: the offer is withdrawn all the same"""
    out = []
    sub = {"ty": "sub", "svc": "s1", "eg": 1, "ctr": 0, "eps": ["e1"], "opts": [], "acc": True, "ttl": 16777215}
    for v in ("A", "B", "C", "D", "E", "F"):
        for t_stop in (1, 2, 3, 4, 6):
            for kind, stop in (("ann", {"op": "ann_stop"}), ("inst", {"op": "stop_announce", "inst": "I1"}), ("connlost", {"op": "connlost"})):
                sched = [{"t": 0, "j": 0, "op": "arm_raise", "inst": "I1"}, {"t": 0, "j": 0, "op": "ann_start"},
                         {"t": 0, "j": 1, "op": "rx", "src": "a1", "mc": False, "sid": 1, "rb": True, "uc": True, "es": [dict(sub)]},
                         dict(stop, t=t_stop, j=0)]
                out.append(_fam(sched, v, "client_unsubscribed raises while the instance is stopped (%s at t=%d)" % (kind, t_stop), t_extra=14))
    return out


def run(seed, count, length, insts, variants, monitor_cfg_extra=None, **kw):
    traces = []
    for n in range(count):
        rng = random.Random("ann/%s/%s/%s" % (kw.get("tag", ""), seed, n))
        v = variants[n % len(variants)]
        tc = TIMINGS[v]
        ann0 = insts if rng.random() < 0.7 else insts[:1]
        sched = lifecycle_history(rng, rng.randint(2, length), insts, tc, ann0=ann0,
                                  with_find=kw.get("with_find", True), with_sub=kw.get("with_sub", False),
                                  allow_stop_twice=kw.get("stop_twice", True), find_share=kw.get("find_share", 0.3),
                                  defer_share=kw.get("defer_share", 0.0))
        rand = [rng.choice([0, 1, 2, 3]) for _ in range(60)]
        ev, missed = annenv.run_schedule(sched, tc, insts, ann0=ann0, rand=list(rand))
        cfg = annenv.mon_cfg(tc, insts, ann0)
        cfg["dsts"] = ["mc", "a1", "a2", "a3", "a4", "a5"]
        traces.append({"cfg": cfg, "ev": monpass.add_adv(ev), "sched": sched, "variant": v, "ann0": list(ann0),
                       "rand": rand, "insts": list(insts), "diag": {"variant": v}})
    return traces


def rerun(p):
    tc = TIMINGS[p["variant"]]
    ev, _ = annenv.run_schedule(p["sched"], tc, p["insts"], ann0=p["ann0"], rand=list(p["rand"]), t_extra=p.get("t_extra"), send_failures=p.get("fails") or ())
    cfg = annenv.mon_cfg(tc, p["insts"], p["ann0"])
    cfg["dsts"] = ["mc", "a1", "a2", "a3", "a4", "a5"]
    return {"cfg": cfg, "ev": monpass.add_adv(ev), "sched": p["sched"], "variant": p["variant"], "ann0": p["ann0"],
            "rand": p["rand"], "insts": p["insts"], "diag": {"variant": p["variant"]}}


def payload(tr):
    return {k: tr[k] for k in ("sched", "variant", "ann0", "rand", "insts")} | {"trace": tr["ev"], "t_extra": tr.get("t_extra"), "fails": tr.get("fails")}


def conform_by_variant(ctx, traces, limit):
    """conformance needs one constant set per batch: group by (variant, insts, ann0)"""
    groups = {}
    for tr in traces[:limit]:
        groups.setdefault((tr["variant"], tuple(tr["insts"]), tuple(tr["ann0"])), []).append(tr)
    acc = total = 0
    for (v, insts, ann0), trs in groups.items():
        a, t, _ = conformance(ctx, "SDTrace", annenv.spec_consts(TIMINGS[v], list(insts), ann0=list(ann0)), trs)
        acc += a
        total += t
    return acc, total


def spec_to_code_ann(ctx, monitor, cfg_expr, inputs_expr, variant, insts, ann0, n, depth=90, max_ev=6):
    """Mode 2 for the announcer properties: behaviours of SD.tla under a configuration of SDConfigs.tla, replayed
    into the real announcer at the same loop positions and with the same random delays"""
    from .common import spec_to_code
    tc = TIMINGS[variant]
    cfg = annenv.mon_cfg(tc, insts, ann0)
    cfg["dsts"] = ["mc", "a1", "a2", "a3", "a4", "a5"]
    # (Mode 1 configurations wrap session ids after 3 to stay finite; the real code wraps after 65535)
    consts = {"Inputs": inputs_expr, "Match": "<<>>", "Cfg": "[(%s) EXCEPT !.maxId = 65535]" % cfg_expr, "Sw": "AllOff", "MaxEv": max_ev,
              "MaxIdle": 3, "MaxPerPoll": 2}

    class Replay:
        hist = None

    def replay(sched, rands):        # the random delays drawn by the specification are prescribed to the code
        return annenv.run_schedule(sched, tc, insts, ann0=ann0, rand=list(rands) + [0] * 10)
    return spec_to_code(ctx, consts, n, depth, replay, monitor, cfg)
