"""helpers shared by the per-property check modules"""
from .. import conform, monpass, tlc
from ..framework import Machinery


def model_check(module, cfgname, sw=None, subst=None, timeout=1500, **kw):
    text = tlc.cfg_text(cfgname)
    for a, b in (subst or {}).items():
        text = text.replace(a, b)
    if sw:
        text = text.replace("Sw <- NoSw", "Sw <- " + sw)
        # a deviation must be caught by the property monitor itself, not by an auxiliary invariant
        text = "\n".join(l for l in text.split("\n")
                         if not (l.startswith("INVARIANT") and l.split()[1] not in ("MonOK", "IdleOK")))
    res = tlc.run(module, text, timeout=timeout, **kw)
    if res.error or res.timeout:
        raise Machinery("TLC failed on %s/%s: %s" % (module, cfgname, (res.error or "timeout")[:800]))
    return res


class Mode1:
    """collects exhaustive TLC runs of a property: design must hold, deviations must be caught"""

    def __init__(self, ctx, module):
        self.ctx, self.module = ctx, module
        self.states = self.trans = 0
        self.runs = []

    def holds(self, name, cfgname, subst=None, timeout=1500, **kw):
        r = model_check(self.module, cfgname, None, subst, timeout, **kw)
        if r.violated:
            self.ctx.violation({"clause": "design:" + r.violated, "source": "TLC exhaustive " + name}, {"trace": r.trace})
        self.states += r.distinct
        self.trans += r.generated
        self.runs.append((name, r.distinct, r.generated, round(r.wall, 1)))
        return r

    def caught(self, sw, cfgname, subst=None, timeout=900):
        r = model_check(self.module, cfgname, sw, subst, timeout)
        if not r.violated:
            raise Machinery("vacuity: spec deviation %s is not caught by the monitor in TLC (%s)" % (sw, cfgname))
        return r


def judge(ctx, monitor, traces, label, payload=lambda tr: {"sched": tr.get("sched"), "trace": tr["ev"]}):
    verdicts, mstates = monpass.run(monitor, traces)
    bad = 0
    for tr, (clause, at) in zip(traces, verdicts):
        if clause:
            bad += 1
            d = {"clause": clause, "source": label, "at": at,
                 "event": tr["ev"][at - 1] if 0 < at <= len(tr["ev"]) else None}
            d.update(tr.get("diag", {}))
            ctx.violation(d, payload(tr))
    return bad, mstates


def conformance(ctx, trace_module, consts, traces):
    conf, cstates = conform.run(trace_module, consts, traces)
    accepted = sum(1 for a, _, _ in conf if a)
    if accepted < len(conf):
        first = next(i for i, c in enumerate(conf) if not c[0])
        ctx.note("spec-drift property=%s traces=%d first_rejected_at_line=%d/%d" %
                 (ctx.prop, len(conf) - accepted, conf[first][1], conf[first][2]))
    return accepted, len(conf), conf


def spec_to_code(ctx, consts, n, depth, replay_fn, monitor, mon_cfg, label="behaviours of the specification"):
    """Mode 2: behaviours simulated by TLC from SD.tla -> input schedules at exact loop positions -> real code.
    replay_fn(schedule) -> (events, missed positions).  Returns coverage numbers."""
    from .. import monpass, simreplay
    hists = simreplay.behaviours(consts, n, depth, ctx.seed + 1)
    traces, same, missed = [], 0, 0
    for h in hists:
        sched = simreplay.schedule_of(h)
        if not sched:
            continue
        rands = [e["val"] for e in h if e.get("k") == "rand"]
        try:
            ev, miss = replay_fn(sched, rands)
        except TypeError:
            ev, miss = replay_fn(sched)
        missed += bool(miss)
        diff = simreplay.same_outputs(h, ev)
        same += diff is None
        traces.append({"cfg": mon_cfg, "ev": monpass.add_adv(ev), "sched": sched, "diag": {"from": "tlc -simulate"}, "diff": diff})
    bad, ms = judge(ctx, monitor, traces, label, lambda tr: {"sched": tr["sched"], "trace": tr["ev"], "from": "tlc -simulate"})
    explained = 0
    if same < len(traces):
        # the real run took another branch than the simulated behaviour (order of simultaneously due timers, hash orders):
        # it only has to be SOME behaviour of the specification -- decided by trace validation
        differ = [t for t in traces if t["diff"] is not None]
        conf, _ = conform.run("SDTrace", {k: consts[k] for k in ("Match", "Cfg", "Sw")}, differ)
        explained = sum(1 for c in conf if c[0])
        left = [t for t, c in zip(differ, conf) if not c[0]]
        if left:
            ctx.note("spec-drift property=%s spec-generated schedules: %d of %d real runs are not behaviours of the specification "
                     "(first: %s)" % (ctx.prop, len(left), len(traces), str(left[0]["diff"])[:300]))
    return {"spec_behaviours": len(hists), "spec_schedules_replayed": len(traces), "replays_equal_to_spec_behaviour": same,
            "replays_on_another_branch_of_the_spec": explained,
            "replay_positions_missed": missed, "spec_schedule_monitor_failures": bad}
