"""C06: server-side subscription records are truthful; acknowledged subscriptions are held."""
from . import anngen
from .common import Mode1, judge

INSTS = ["I1", "I2", "I3"]


def check(ctx):
    m1 = Mode1(ctx, "MC_Ann")
    m1.holds("collect 0", "C06_quick.cfg")
    if not ctx.quick:
        m1.holds("collect 1", "C06_quick.cfg", {"C06_A": "C06_B"}, timeout=3000)
        m1.holds("collect 0, 4 inputs", "C06_quick.cfg", {"MaxEv = 3": "MaxEv = 4"}, timeout=3000)
    m1.caught("SwD3", "C06_quick.cfg")
    traces = anngen.run(ctx.seed, ctx.pick(360, 6000), ctx.pick(8, 12), INSTS, list("ABDF"), tag="c06",
                        with_sub=True, with_find=False, stop_twice=False)
    bad, ms = judge(ctx, "Mon_C06", traces, "subscribe histories", anngen.payload)
    sim = anngen.spec_to_code_ann(ctx, "Mon_C06", "C06_A", "C06_Inputs", "A", ["I1"], ["I1"], ctx.pick(20, 300))
    acc, total = anngen.conform_by_variant(ctx, traces, ctx.pick(100, 1000))
    cov = dict(states=m1.states, transitions=m1.trans, traces_validated_against_impl=acc, monitor_traces=len(traces),
               monitor_failures=bad, monitor_states=ms, conformance_traces=total, spec_drift=total - acc, tlc_runs=m1.runs, **sim,
               exhaustive=False,
               samples=[{"variant": traces[0]["variant"], "schedule": traces[0]["sched"][:6], "trace": traces[0]["ev"][:20]}],
               rule="TLC: subscription store of SD.tla x Mon_C06 (alternation, ghost liveness from the inputs, reboot applied "
                    "before the entries of the message) over Subscribe TTL {2, forever} / StopSubscribe / reboot evidence / "
                    "rejected counter / start / stop / connection loss, 3(-4) inputs at every position; real code: seeded "
                    "histories incl. a Subscribe and its TTL deadline in one iteration")
    return ctx.finish("model_checking", cov)


def replay(ctx, rep):
    bad, _ = judge(ctx, "Mon_C06", [anngen.rerun(rep["payload"])], "replay", anngen.payload)
    print("replay: %s" % ("violation reproduced" if bad else "no violation on the current tree"))
    return 1 if bad else 0
