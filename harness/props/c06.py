"""C06: server-side subscription records are truthful; acknowledged subscriptions are held."""
from .. import annenv, monpass
from . import anngen
from .common import Mode1, judge

INSTS = ["I1", "I2", "I3"]


def long_ttl_traces():
    """subscriptions with TTLs of one to three days, refreshed / stopped / re-added after more than a day (non-cyclic
    instance: nothing else happens in between)"""
    out = []
    tc = anngen.TIMINGS["long"]
    for ttl1 in (100000, 86401, 259200):
        for gap in (86400, 90000, ttl1 - 1):
            for how in ("refresh", "stop_readd", "reboot_readd", "refresh_forever"):
                sub = {"ty": "sub", "svc": "s1", "eg": 1, "ctr": 0, "eps": ["e1"], "opts": [], "acc": True}
                sched = [{"t": 0, "j": 0, "op": "ann_start"},
                         {"t": 1, "j": 0, "op": "rx", "src": "a1", "mc": False, "sid": 1, "rb": True, "uc": True, "es": [dict(sub, ttl=ttl1)]}]
                t2 = 1 + gap
                if how == "stop_readd":
                    sched.append({"t": t2, "j": 0, "op": "rx", "src": "a1", "mc": False, "sid": 2, "rb": True, "uc": True, "es": [dict(sub, ttl=0)]})
                ttl2 = 16777215 if how == "refresh_forever" else 100000
                sched.append({"t": t2, "j": 1, "op": "rx", "src": "a1", "mc": False, "sid": 1 if how == "reboot_readd" else 3, "rb": True,
                              "uc": True, "es": [dict(sub, ttl=ttl2)]})
                ev, _ = annenv.run_schedule(sched, tc, ["I1"], ann0=["I1"], rand=[0] * 4, t_extra=ttl1 + 100005)
                cfg = annenv.mon_cfg(tc, ["I1"], ["I1"])
                cfg["dsts"] = ["mc", "a1", "a2", "a3", "a4", "a5"]
                out.append({"cfg": cfg, "ev": monpass.add_adv(ev), "sched": sched, "variant": "long", "ann0": ["I1"], "rand": [0] * 4,
                            "insts": ["I1"], "t_extra": ttl1 + 100005, "diag": {"variant": "long TTL", "family": how}})
    return out


def check(ctx):
    m1 = Mode1(ctx, "MC_Ann")
    m1.holds("collect 0", "C06_quick.cfg")
    if not ctx.quick:
        m1.holds("collect 1", "C06_quick.cfg", {"C06_A": "C06_B"}, timeout=3000)
        m1.holds("collect 0, 5 inputs", "C06_quick.cfg", {"MaxEv = 3": "MaxEv = 5"}, timeout=3000)
    m1.caught("SwD3", "C06_quick.cfg")
    traces = anngen.run(ctx.seed, ctx.pick(360, 6000), ctx.pick(8, 12), INSTS, list("ABDF"), tag="c06",
                        with_sub=True, with_find=False, stop_twice=False)
    bad, ms = judge(ctx, "Mon_C06", traces + long_ttl_traces() + anngen.sub_lifecycle_family() + anngen.shared_eventgroup_family(), "subscribe histories", anngen.payload)
    sim = anngen.spec_to_code_ann(ctx, "Mon_C06", "C06_A", "C06_Inputs", "A", ["I1"], ["I1"], ctx.pick(20, 300))
    acc, total = anngen.conform_by_variant(ctx, traces, ctx.pick(100, 1000))
    cov = dict(states=m1.states, transitions=m1.trans, traces_validated_against_impl=acc, monitor_traces=len(traces),
               monitor_failures=bad, monitor_states=ms, conformance_traces=total, spec_drift=total - acc, tlc_runs=m1.runs, **sim,
               exhaustive=False,
               samples=[{"variant": traces[0]["variant"], "schedule": traces[0]["sched"][:6], "trace": traces[0]["ev"][:20]}],
               rule="TLC: subscription store of SD.tla x Mon_C06 (alternation, ghost liveness from the inputs, reboot applied "
                    "before the entries of the message) over Subscribe TTL {2, forever} / StopSubscribe / reboot evidence / "
                    "rejected counter / start / stop / connection loss, 3(-4) inputs at every position; real code: seeded "
                    "histories incl. a Subscribe and its TTL deadline in one iteration")
    return ctx.finish("model_checking", cov)


def replay(ctx, rep):
    bad, _ = judge(ctx, "Mon_C06", [anngen.rerun(rep["payload"])], "replay", anngen.payload)
    print("replay: %s" % ("violation reproduced" if bad else "no violation on the current tree"))
    return 1 if bad else 0
