"""C13: FindService only for watched services not yet found, on schedule, bounded in number."""
import random

from .. import monpass, sdenv, tlc
from ..sdenv import FOREVER
from .common import Mode1, conformance, judge

SVCS = ["s1", "s2", "s3"]
FLTS = ["F1", "F2", "F3", "F4", "F5"]
# find entries carry the ids of the watched filter: name them by the FLT table
VARIANTS = {
    "A": dict(initMin=0, initMax=1, reps=2, base=1),
    "B": dict(initMin=1, initMax=1, reps=1, base=2),
    "C": dict(initMin=1, initMax=3, reps=4, base=1),
    "D": dict(initMin=0, initMax=0, reps=0, base=1),
    "E": dict(initMin=2, initMax=3, reps=3, base=2),
}
FIND_TTL = 3


def name_finds(ev):
    rev = {v: k for k, v in sdenv.FLT.items()}
    for e in ev:
        if e.get("op") == "tx":
            for en in e["es"]:
                if en["ty"] == "find":
                    ids = tuple({-1: w}.get(x, x) for x, w in zip(en["ids"], (None, sdenv.ANY16, sdenv.ANY8, sdenv.ANY32)))
                    en["svc"] = rev.get(ids, "F?")
    return ev


def run_schedule(sched, var, watch0, rand, with_egs=False):
    v = VARIANTS[var]
    st = sdenv.Stack(tim=sdenv.timings(INITIAL_DELAY_MIN=v["initMin"], INITIAL_DELAY_MAX=v["initMax"],
                                       REPETITIONS_MAX=v["reps"], REPETITIONS_BASE_DELAY=v["base"], FIND_TTL=FIND_TTL),
                     rand=list(rand))
    d = st.prot.discovery
    lsts = {}

    def flt(name):     # with_egs: the watched description also names eventgroups (as a server-side description does)
        return sdenv.service(name, eventgroups=frozenset([1, 2])) if with_egs else sdenv.service(name)

    def listener(name):          # one listener object per name: watching twice is the same registration
        if name not in lsts:
            lsts[name] = sdenv.ClientL(st.rec, name)
        return lsts[name]
    if isinstance(watch0, dict):            # {listener: [filters]}  (Mode 2: the registrations of the configuration)
        for l, fs in watch0.items():
            for f in fs:
                d.watch_service(flt(f), listener(l))
    else:
        lst = listener("L1")
        for f in watch0:
            d.watch_service(flt(f), lst)

    def do(inp):
        ev = {k: x for k, x in inp.items() if k not in ("t", "j")}
        op = inp["op"]
        if op == "rx":
            st.rx(ev)
        elif op == "disc_start":
            st.call(ev, d.start)
        elif op == "disc_stop":
            st.call(ev, d.stop)
        elif op == "watch":
            st.call(ev, d.watch_service, flt(inp["flt"]), listener(inp["lst"]))
        elif op == "connlost":
            st.call(ev, st.prot.connection_lost, None)
    tmax = 0
    for inp in sched:
        st.loop.inject(inp["t"], (lambda i=inp: do(i)), inp.get("j", 0))
        tmax = max(tmax, inp["t"])
    horizon = tmax + v["initMax"] + v["base"] * (2 ** v["reps"]) + 4
    ev, missed = st.finish(horizon)
    return name_finds(ev), missed


def gen(rng, n, var):
    from .anngen import positions, Sids
    v = VARIANTS[var]
    sids = Sids()
    sched = [{"t": 0, "j": 0, "op": "disc_start"}] if rng.random() < 0.8 else []
    running = bool(sched)
    span = v["initMax"] + v["base"] * (2 ** v["reps"])
    cold = rng.choice(SVCS + [None])         # a service nobody offers in this history keeps the find task alive
    warm = [x for x in SVCS if x != cold]
    offered = {}                             # src -> services it offered (a rebooted peer offers them again)
    for (t, j) in positions(rng, n, gaps=(0, 0, 0, 1, 1, 1, 2, max(1, span // 3))):
        r = rng.random()
        if r < 0.1:
            if running:
                sched.append({"t": t, "j": j, "op": "disc_stop"})
            else:
                sched.append({"t": t, "j": j, "op": "disc_start"})
            running = not running
        elif r < 0.14:
            sched.append({"t": t, "j": j, "op": "watch", "lst": "L2", "flt": rng.choice(FLTS)})
        elif r < 0.16:
            sched.append({"t": t, "j": j, "op": "connlost"})
        else:
            src = rng.choice(["a1", "a2"])
            mc = rng.random() < 0.7
            reboot = rng.random() < 0.14
            sid, rb = sids.next(src, mc, reboot=reboot)
            if reboot and offered.get(src) and rng.random() < 0.8:
                es = [{"ty": "offer", "svc": x, "ttl": rng.choice([3, 5, 5, FOREVER]), "opts": []} for x in sorted(offered[src])]
            else:
                es = [{"ty": "offer", "svc": rng.choice(warm), "ttl": rng.choice([0, 1, 2, 3, 5, FOREVER]), "opts": []}
                      for _ in range(rng.choice([1, 1, 2]))]
            offered.setdefault(src, set()).update(e["svc"] for e in es if e["ttl"])
            sched.append({"t": t, "j": j, "op": "rx", "src": src, "mc": mc, "sid": sid, "rb": rb, "uc": True, "es": es})
    return sched


def mon_cfg(var, watch0):
    c = dict(VARIANTS[var])
    c.update(findTTL=FIND_TTL, watch0=list(watch0), svcs=SVCS, match=sdenv.match_table(FLTS, SVCS, with_all=False))
    return c


def traces_for(seed, count, length):
    out = []
    for n in range(count):
        rng = random.Random("c13/%s/%s" % (seed, n))
        var = "ABCDE"[n % 5]
        watch0 = rng.sample(FLTS, rng.randint(1, 4))
        sched = gen(rng, rng.randint(2, length), var)
        rand = [rng.choice([0, 1, 2, 3]) for _ in range(10)]
        with_egs = n % 4 == 3
        ev, _ = run_schedule(sched, var, watch0, rand, with_egs)
        out.append({"cfg": mon_cfg(var, watch0), "ev": monpass.add_adv(ev), "sched": sched, "var": var, "watch0": watch0,
                    "rand": rand, "with_egs": with_egs, "diag": {"variant": var, "filters_with_eventgroups": with_egs}})
    return out


def structured():
    """a found service whose record is replaced (reboot + new offer, StopOffer + new offer, plain refresh) while the find
    task still runs for another service: every old deadline x every replacement time x new TTL, two long variants"""
    out = []
    for var in "CE":
        for a in (1, 2, 3):
            for gap in range(0, a + 1):
                for b in (3, 5, FOREVER):
                    for how in ("reboot", "stop", "refresh"):
                        t1 = 1
                        sched = [{"t": 0, "j": 0, "op": "disc_start"},
                                 {"t": t1, "j": 0, "op": "rx", "src": "a1", "mc": True, "sid": 5, "rb": True, "uc": True,
                                  "es": [{"ty": "offer", "svc": "s1", "ttl": a, "opts": []}]}]
                        if how == "stop":
                            sched.append({"t": t1 + gap, "j": 1, "op": "rx", "src": "a1", "mc": True, "sid": 6, "rb": True, "uc": True,
                                          "es": [{"ty": "offer", "svc": "s1", "ttl": 0, "opts": []}]})
                        sid = {"reboot": 1, "stop": 7, "refresh": 6}[how]
                        sched.append({"t": t1 + gap, "j": 2, "op": "rx", "src": "a1", "mc": True, "sid": sid, "rb": True, "uc": True,
                                      "es": [{"ty": "offer", "svc": "s1", "ttl": b, "opts": []}]})
                        watch0 = ["F5", "F3"] if (a + gap) % 2 else ["F2", "F3"]
                        rand = [0] * 10
                        ev, _ = run_schedule(sched, var, watch0, rand, with_egs=(b == 5))
                        out.append({"cfg": mon_cfg(var, watch0), "ev": monpass.add_adv(ev), "sched": sched, "var": var,
                                    "watch0": watch0, "rand": rand, "diag": {"variant": var, "family": "record replaced: " + how}})
    return out


def payload(tr):
    return {k: tr[k] for k in ("sched", "var", "watch0", "rand")} | {"trace": tr["ev"], "with_egs": tr.get("with_egs", False)}


def spec_consts(var, watch0):
    v = VARIANTS[var]
    match = tlc.to_tla({k: set(x) for k, x in sdenv.match_table(FLTS, SVCS).items()})
    w0 = "[L1 |-> %s, L2 |-> {}]" % tlc.to_tla(set(watch0))
    order = tlc.to_tla(list(watch0))
    return {"Match": match, "Sw": "AllOff",
            "Cfg": "[maxId |-> 65535, initMin |-> %d, initMax |-> %d, reps |-> %d, base |-> %d, findTTL |-> %d, "
                   "randVals |-> {0, 1, 2, 3}, watch0 |-> %s, wkeys0 |-> %s] @@ CfgDefault"
                   % (v["initMin"], v["initMax"], v["reps"], v["base"], FIND_TTL, w0, order)}


def check(ctx):
    m1 = Mode1(ctx, "MC_Ann")
    m1.holds("window [0,1], 2 repetitions", "C13_quick.cfg", None if ctx.quick else {"MaxEv = 3": "MaxEv = 5"}, timeout=3000)
    m1.holds("window [1,1], 1 repetition, base 2", "C13_quick.cfg", dict({"C13_A": "C13_B"}, **({} if ctx.quick else {"MaxEv = 3": "MaxEv = 5"})), timeout=3000)
    m1.caught("SwFindAll", "C13_quick.cfg")
    traces = traces_for(ctx.seed, ctx.pick(400, 6000), ctx.pick(8, 12)) + structured()
    bad, ms = judge(ctx, "Mon_C13", traces, "find-task histories", payload)
    from .common import spec_to_code
    cfgA = dict(VARIANTS["A"], findTTL=FIND_TTL, watch0=["F1", "F3"], svcs=SVCS, match={"F1": ["s1", "s2"], "F3": ["s3"]})
    sim = spec_to_code(ctx, {"Inputs": "C13_Inputs", "Match": "C13_Match", "Cfg": "[C13_A EXCEPT !.maxId = 65535]", "Sw": "AllOff",
                             "MaxEv": 6, "MaxIdle": 3, "MaxPerPoll": 2},
                       ctx.pick(25, 400), 90, lambda sched, rands: run_schedule(sched, "A", {"L1": ["F1"], "L2": ["F3"]}, list(rands) + [0] * 5),
                       "Mon_C13", cfgA)
    groups = {}
    for tr in traces[: ctx.pick(120, 1000)]:
        if all(i["op"] != "watch" or True for i in tr["sched"]):
            groups.setdefault((tr["var"], tuple(tr["watch0"])), []).append(tr)
    acc = total = 0
    for (var, w0), trs in list(groups.items())[: ctx.pick(12, 60)]:
        a, t, _ = conformance(ctx, "SDTrace", spec_consts(var, w0), trs)
        acc += a
        total += t
    cov = dict(states=m1.states, transitions=m1.trans, traces_validated_against_impl=acc, monitor_traces=len(traces),
               monitor_failures=bad, monitor_states=ms, conformance_traces=total, spec_drift=total - acc, tlc_runs=m1.runs, **sim,
               exhaustive=False,
               samples=[{"variant": traces[0]["var"], "watched": traces[0]["watch0"], "schedule": traces[0]["sched"][:6],
                         "trace": traces[0]["ev"][:16]}],
               rule="TLC: find task of SD.tla (initial wait, 1 + reps rounds, early end) with the discovery store x Mon_C13 for "
                    "all schedules of 3(-4) inputs {start, stop, offers / stop-offers / expiring offers / reboot evidence} at "
                    "every tick relative to the rounds; real code: 1-4 watched filters with wildcards, five timing "
                    "configurations (0..4 repetitions), offers from two sources")
    return ctx.finish("model_checking", cov)


def replay(ctx, rep):
    p = rep["payload"]
    ev, _ = run_schedule(p["sched"], p["var"], p["watch0"], p["rand"], p.get("with_egs", False))
    tr = {"cfg": mon_cfg(p["var"], p["watch0"]), "ev": monpass.add_adv(ev), "sched": p["sched"], "var": p["var"],
          "watch0": p["watch0"], "rand": p["rand"]}
    bad, _ = judge(ctx, "Mon_C13", [tr], "replay", payload)
    print("replay: %s" % ("violation reproduced" if bad else "no violation on the current tree"))
    return 1 if bad else 0
