"""C09: TTL expiry exactly once, on time; refresh postpones.  Drives the real TimedStore directly
(public class) from the I/O phase and from the timer phase of loop iterations, and re-judges
discovery-level executions (offers / stop-offers through the whole receive path) projected onto
the TimedStore alphabet."""
import random

from .. import conform, monpass, sdenv, tlc
from ..framework import Machinery
from ..sdenv import FOREVER, sd
from ..vloop import new_loop

ADDRS = ["a1", "a2"]
KEYS = ["k1", "k2", "k3"]
BIG = 0xFFFFFE
TTLS = [1, 2, 3, BIG, FOREVER]


def mon_cfg(keys=KEYS):
    return {"addrs": ADDRS, "keys": keys}


def run_schedule(sched, t_end):
    """sched: [{t, j | phase:'timer', op, ...}]"""
    loop = new_loop()
    rec = sdenv.Recorder(loop)
    store = sd.TimedStore(__import__("logging").getLogger("x"))

    refuse = []

    def cb_new(key, addr):
        if refuse and refuse.pop():
            raise sd.NakSubscription()      # the listener rejects: refresh() must leave no trace of this entry
        rec.emit(k="out", op="new", a=sdenv.addr_name(addr), key=key)

    def cb_gone(key, addr):
        rec.emit(k="out", op="gone", a=sdenv.addr_name(addr), key=key)

    def do(inp):
        ev = {k: v for k, v in inp.items() if k not in ("t", "j", "phase")}
        rec.emit(k="in", **ev)
        try:
            op = inp["op"]
            if op == "ts_refresh":
                del refuse[:]
                refuse.append(bool(inp.get("nak")))
                try:
                    store.refresh(inp["ttl"], sdenv.ADDR[inp["a"]], inp["key"], cb_new, cb_gone)
                except sd.NakSubscription:
                    pass
            elif op == "ts_stop":
                store.stop(sdenv.ADDR[inp["a"]], inp["key"])
            elif op == "ts_stopaddr":
                store.stop_all_for_address(sdenv.ADDR[inp["a"]])
            elif op == "ts_stopall":
                store.stop_all()
            elif op == "ts_stopmatch":
                store.stop_all_matching(lambda k: k in inp["keys"])
        except Exception as exc:
            rec.emit(k="exc", what="%s raised %r" % (inp["op"], exc))

    for inp in sched:
        if inp.get("phase") == "timer":
            loop.call_at(float(inp["t"]), do, inp)
        else:
            loop.inject(inp["t"], (lambda i=inp: do(i)), inp.get("j", 0))
    loop.run_to(t_end)
    rec.flush_exceptions()
    missed = list(loop.missed)
    loop.shutdown()
    return rec.ev, missed


def gen_history(rng, n):
    t = 0
    out = []
    far = rng.random() < 0.25          # some histories run past 0xFFFFFF seconds
    mid = not far and rng.random() < 0.15   # some use TTLs and pauses of one to three days
    for i in range(n):
        dt = rng.choice([0, 0, 0, 1, 1, 1, 2, 3])
        if far and rng.random() < 0.2:
            dt = rng.choice([BIG - 1, BIG, BIG + 1, FOREVER, FOREVER + 1, BIG - 2])
        if mid and rng.random() < 0.4:
            dt = rng.choice([86399, 86400, 86401, 90000, 100000, 172800, 10000])
        t += dt
        j = rng.choice([0, 0, 1, 2])
        if dt == 0 and out and "j" in out[-1]:
            j = max(j, out[-1]["j"])
        roll = rng.random()
        a, k = rng.choice(ADDRS), rng.choice(KEYS)
        if roll < 0.62:
            inp = {"op": "ts_refresh", "a": a, "key": k, "ttl": rng.choice(TTLS if far else [1, 2, 3, 3, 2, 1, FOREVER, BIG]),
                   "nak": rng.random() < 0.2}
            if mid:
                inp["ttl"] = rng.choice([100000, 200000, 86400, 86401, 3, FOREVER, 259200])
        elif roll < 0.8:
            inp = {"op": "ts_stop", "a": a, "key": k}
        elif roll < 0.88:
            inp = {"op": "ts_stopaddr", "a": a}
        elif roll < 0.93:
            inp = {"op": "ts_stopall"}
        else:
            inp = {"op": "ts_stopmatch", "keys": rng.sample(KEYS, rng.choice([1, 2]))}
        inp["t"] = t
        if rng.random() < 0.3:
            inp["phase"] = "timer"     # runs among the due timers of that tick (either order)
        else:
            inp["j"] = j
        out.append(inp)
    tail = rng.choice([4, 4, 4, BIG + 5]) if far else (300000 if mid else 4)
    return out, t + tail


def gen_focus(rng, n):
    """one hot entry that is refreshed again and again with changing TTLs (longer, shorter, infinite), outlives several of
    its earlier deadlines, is stopped and re-added: chains of timers replacing each other"""
    t, out = 0, []
    a, k = rng.choice(ADDRS), rng.choice(KEYS)
    for i in range(n):
        t += rng.choice([0, 1, 1, 1, 2, 2, 3])
        roll = rng.random()
        if roll < 0.72:
            inp = {"op": "ts_refresh", "a": a, "key": k, "ttl": rng.choice([1, 2, 2, 3, 3, 5, 5, FOREVER])}
        elif roll < 0.82:
            inp = {"op": "ts_stop", "a": a, "key": k}
        elif roll < 0.88:
            inp = {"op": rng.choice(["ts_stopaddr", "ts_stopall"]), "a": a}
        else:
            inp = {"op": "ts_refresh", "a": rng.choice(ADDRS), "key": rng.choice(KEYS), "ttl": rng.choice([1, 2, 3, FOREVER])}
        inp["t"] = t
        if rng.random() < 0.25:
            inp["phase"] = "timer"
        else:
            inp["j"] = rng.choice([0, 0, 1])
            if out and out[-1]["t"] == t and "j" in out[-1]:
                inp["j"] = max(inp["j"], out[-1]["j"])
        out.append(inp)
    return out, t + 7


def direct_traces(seed, count, length):
    traces = []
    for i in range(count):
        rng = random.Random("c09/%s/%s" % (seed, i))
        sched, t_end = (gen_focus if i % 3 == 2 else gen_history)(rng, rng.randint(3, length))
        ev, missed = run_schedule(sched, t_end)
        traces.append({"cfg": mon_cfg(), "ev": monpass.add_adv(ev), "sched": sched, "t_end": t_end, "missed": missed})
    return traces


# ------------------------------------------------------------- discovery-level projection
def discovery_traces(seed, count, length):
    """offers / stop-offers / connection loss through ServiceDiscoveryProtocol, one watch-all
    listener, no reboot evidence; projected onto the TimedStore alphabet (svc = key)."""
    from . import c05
    traces = []
    for i in range(count):
        rng = random.Random("c09d/%s/%s" % (seed, i))
        sched = [{"t": 0, "j": 0, "op": "watch", "lst": "L1", "flt": "ALL"}]
        overlap = i % 3 == 1       # no watch-all listener: L1 under a wildcard filter, L2 under an overlapping concrete one that it gives up
        if overlap:
            sched = [{"t": 0, "j": 0, "op": "watch", "lst": "L1", "flt": "F1"}, {"t": 0, "j": 0, "op": "watch", "lst": "L2", "flt": "F2"}]
        gone2 = False
        sid = {}
        t = 0
        for _ in range(rng.randint(3, length)):
            dt = rng.choice([0, 0, 1, 1, 1, 2, 3])
            t += dt
            j = rng.choice([0, 0, 1, 2])
            if dt == 0:
                j = max(j, sched[-1]["j"])
            if rng.random() < 0.06:
                sched.append({"t": t, "j": j, "op": "connlost"})
                continue
            if overlap and not gone2 and rng.random() < 0.2:
                sched.append({"t": t, "j": j, "op": "unwatch", "lst": "L2", "flt": "F2"})
                gone2 = True
                continue
            src, mc = rng.choice(ADDRS), rng.random() < 0.6
            sid[(src, mc)] = sid.get((src, mc), 0) + 1
            es = [{"ty": "offer", "svc": rng.choice(c05.SVCS), "ttl": rng.choice([0, 1, 2, 3, 3, 2, FOREVER]), "opts": []}
                  for _ in range(rng.choice([1, 1, 2]))]
            sched.append({"t": t, "j": j, "op": "rx", "src": src, "mc": mc, "sid": sid[(src, mc)], "rb": True,
                          "uc": True, "es": es})
        ev, missed = c05.run_schedule(sched)
        proj = []
        cl = False
        for e in ev:
            if e["k"] == "in" and e["op"] == "rx":
                for en in e["es"]:
                    if overlap and en["svc"] == "s3":      # (not heard by L1)
                        continue
                    if en["ttl"] == 0:
                        proj.append({"k": "in", "op": "ts_stop", "a": e["src"], "key": en["svc"], "t": e["t"]})
                    else:
                        proj.append({"k": "in", "op": "ts_refresh", "a": e["src"], "key": en["svc"], "ttl": en["ttl"], "t": e["t"]})
            elif e["k"] == "in" and e["op"] == "connlost":
                proj.append({"k": "in", "op": "ts_stopall", "t": e["t"]})
                cl = True
            elif e["k"] == "out" and e["op"] in ("offered", "stopped") and e["lst"] == "L1":
                proj.append({"k": "out", "op": "new" if e["op"] == "offered" else "gone", "a": e["src"], "key": e["svc"], "t": e["t"]})
            elif e["k"] in ("idle", "exc"):
                proj.append(e)
        # connection loss is applied one iteration later (deferred by design): histories in which
        # another datagram arrives inside that window are not comparable and are skipped
        skip = False
        pend = None
        for e in ev:
            if e["k"] == "in" and e["op"] == "connlost":
                pend = e["t"]
            elif e["k"] == "in" and pend is not None:
                skip = True
            elif e["k"] == "idle":
                pend = None
        if skip:
            continue
        traces.append({"cfg": mon_cfg(c05.SVCS), "ev": monpass.add_adv(proj), "sched": sched, "missed": missed, "level": "discovery"})
    return traces


def minor_sibling_traces():
    """a filter with a concrete minor version (F5 / F4) has found its service; another filter is registered; the same service
    instance is then offered with ANOTHER minor version (heard by nobody, or only by a wildcard listener) -- and the watched
    one is refreshed before its TTL: the refresh postpones the expiry, which is reported once, TTL after the last refresh"""
    from . import c05
    out = []
    for flt, svc, sib in (("F5", "s1", "s6"), ("F4", "s2", "s7")):
        for ttl in (2, 3):
            for other in ("F3", "ALL", None):
                for sib_first in (False, True):
                    def rx(t, j, sid, name, ttl_=ttl):
                        return {"t": t, "j": j, "op": "rx", "src": "a1", "mc": True, "sid": sid, "rb": True, "uc": True,
                                "es": [{"ty": "offer", "svc": name, "ttl": ttl_, "opts": []}]}
                    sched = [{"t": 0, "j": 0, "op": "watch", "lst": "L1", "flt": flt}]
                    sched.append(rx(1, 0, 1, sib if sib_first else svc))
                    if other:
                        sched.append({"t": 1, "j": 1, "op": "watch", "lst": "L2", "flt": other})
                    sched.append(rx(1, 2, 2, svc if sib_first else sib))
                    sched.append(rx(ttl, 0, 3, svc))          # the refresh, one tick before the deadline
                    sched.append(rx(ttl, 1, 4, sib))
                    sched.append(rx(2 * ttl - 1, 0, 5, svc))    # and again
                    ev, missed = c05.run_schedule(sched)
                    proj = []
                    for e in ev:
                        if e["k"] == "in" and e["op"] == "rx":
                            for en in e["es"]:
                                if en["svc"] != sib:
                                    proj.append({"k": "in", "op": "ts_refresh", "a": e["src"], "key": en["svc"], "ttl": en["ttl"], "t": e["t"]})
                        elif e["k"] == "out" and e["op"] in ("offered", "stopped") and e["lst"] == "L1":
                            proj.append({"k": "out", "op": "new" if e["op"] == "offered" else "gone", "a": e["src"], "key": e["svc"], "t": e["t"]})
                        elif e["k"] in ("idle", "exc"):
                            proj.append(e)
                    out.append({"cfg": mon_cfg(c05.SVCS), "ev": monpass.add_adv(proj), "sched": sched, "missed": missed, "level": "discovery",
                                "diag": {"family": "sibling with another minor version (%s / %s / %s, TTL %d)" % (flt, svc, sib, ttl)}})
    return out


def model_check(cfgname, sw=None, subst=None, timeout=1500):
    text = tlc.cfg_text(cfgname)
    for a, b in (subst or {}).items():
        text = text.replace(a, b)
    if sw:
        text = text.replace("Sw <- NoSw", "Sw <- " + sw)
    res = tlc.run("MC_C09", text, timeout=timeout)
    if res.error or res.timeout:
        raise Machinery("TLC failed on %s: %s" % (cfgname, (res.error or "timeout")[:500]))
    return res


def judge(ctx, traces, label):
    verdicts, mstates = monpass.run("Mon_C09", traces)
    bad = 0
    for tr, (clause, at) in zip(traces, verdicts):
        if clause:
            bad += 1
            ctx.violation({"clause": clause, "source": label, "at": at,
                           "event": tr["ev"][at - 1] if 0 < at <= len(tr["ev"]) else None},
                          {"sched": tr["sched"], "t_end": tr.get("t_end"), "level": tr.get("level", "direct"), "trace": tr["ev"]})
    return bad, mstates


def trace_consts():
    return {"Match": "<<>>", "Cfg": "[maxId |-> 65535, timerPhase |-> TRUE] @@ CfgDefault", "Sw": "AllOff"}


def check(ctx):
    res = model_check("C09_quick.cfg", subst=None if ctx.quick else {"Q_": "T_"})
    if res.violated:
        ctx.violation({"clause": "design:" + res.violated, "source": "TLC exhaustive"}, {"trace": res.trace})
    states, trans = res.distinct, res.generated
    runs = [("C09 " + ctx.tier, res.distinct, res.generated)]
    for sw in ["SwD1", "SwStale", "SwForever"]:
        r = model_check("C09_quick.cfg", sw)
        if not r.violated:
            raise Machinery("vacuity: spec deviation %s not caught by Mon_C09" % sw)
    if not ctx.quick:
        r = model_check("C09_quick.cfg", subst={"Q_": "T_", "MaxEv = 3": "MaxEv = 5"}, timeout=3000)
        if r.violated:
            ctx.violation({"clause": "design:" + r.violated, "source": "TLC exhaustive T4"}, {"trace": r.trace})
        states += r.distinct
        trans += r.generated
        runs.append(("T4", r.distinct, r.generated))
    n, length = ctx.pick((400, 10), (6000, 16))
    traces = direct_traces(ctx.seed, n, length)
    bad, mstates = judge(ctx, traces, "TimedStore direct")
    dtr = discovery_traces(ctx.seed, ctx.pick(150, 2000), 10) + minor_sibling_traces()
    bad2, ms2 = judge(ctx, dtr, "discovery receive path")
    near = [t for t in traces if t["t_end"] < 10000][: ctx.pick(150, 1500)]
    conf, cstates = conform.run("SDTrace", trace_consts(), near)
    accepted = sum(1 for a, _, _ in conf if a)
    if accepted < len(conf):
        first = next(i for i, c in enumerate(conf) if not c[0])
        ctx.note("spec-drift property=C09 traces=%d first_rejected_at_line=%d/%d" %
                 (len(conf) - accepted, conf[first][1], conf[first][2]))
    cov = dict(states=states, transitions=trans, traces_validated_against_impl=accepted,
               monitor_traces=len(traces) + len(dtr), monitor_failures=bad + bad2, monitor_states=mstates + ms2,
               conformance_traces=len(conf), spec_drift=len(conf) - accepted, tlc_runs=runs,
               far_jump_traces=sum(1 for t in traces if t["t_end"] > BIG),
               samples=[{"schedule": traces[0]["sched"], "trace": traces[0]["ev"][:24]}],
               exhaustive=False,
               rule="TLC: TimedStore on the loop model x Mon_C09 exhaustively (1-2 addresses x 2 keys, TTL {1,2,BIG,forever}, "
                    "3-4 operations from the I/O and the timer phase, all tie orders); real TimedStore: seeded random "
                    "histories incl. same-tick refresh/expiry in both orders and jumps past 0xFFFFFF s; discovery-level "
                    "histories projected onto the same alphabet")
    return ctx.finish("model_checking", cov, assumptions=[
        "CPython 3.12 asyncio loop semantics (harness reuses BaseEventLoop._run_once)",
        "integer virtual time: 'closer than the clock resolution' = same tick"])


def replay(ctx, rep):
    p = rep["payload"]
    if p.get("level") == "discovery":
        print("replay of discovery-level histories: re-run ./check C09 (same seed)")
        return 2
    ev, _ = run_schedule(p["sched"], p["t_end"])
    tr = {"cfg": mon_cfg(), "ev": monpass.add_adv(ev), "sched": p["sched"], "t_end": p["t_end"]}
    bad, _ = judge(ctx, [tr], "replay")
    print("replay: %s" % ("violation reproduced" if bad else "no violation on the current tree"))
    return 1 if bad else 0
