"""C12: FindService answered only by matching, ready instances, by unicast, in time."""
from . import anngen
from .common import Mode1, judge

INSTS = ["I1", "I2", "I3", "I4", "I5"]


def reboot_while_answer_pending():
    """the requester holds a subscription, asks, and shows reboot evidence while the answer is still waiting (request-response
    delay, collection window): the answer is owed all the same"""
    from .. import annenv, monpass
    out = []
    sub = {"ty": "sub", "svc": "s1", "eg": 1, "ctr": 0, "eps": ["e1"], "opts": [], "acc": True, "ttl": 16777215}
    for v in "BDF":
        tc = anngen.TIMINGS[v]
        for find_mc in (False, True):
            for k in (0, 1, 2, 3):
                for j in (0, 2):
                    for evid_mc in (False, True):
                        t0 = 8
                        sched = [{"t": 0, "j": 0, "op": "ann_start"},
                                 {"t": t0 - 2, "j": 0, "op": "rx", "src": "a1", "mc": False, "sid": 7, "rb": True, "uc": True, "es": [dict(sub)]},
                                 {"t": t0 - 2, "j": 0, "op": "rx", "src": "a1", "mc": True, "sid": 7, "rb": True, "uc": True, "es": []},
                                 {"t": t0, "j": 0, "op": "rx", "src": "a1", "mc": find_mc, "sid": 8, "rb": True, "uc": True,
                                  "es": [{"ty": "find", "svc": "f1x", "ttl": 3, "opts": []}]},
                                 {"t": t0 + k, "j": j, "op": "rx", "src": "a1", "mc": evid_mc, "sid": 1, "rb": True, "uc": True,
                                  "es": [] if evid_mc else [dict(sub)]}]
                        rand = [0, 0, 0, 0] + [1] * 8
                        ev, _ = annenv.run_schedule(sched, tc, ["I1", "I2"], ann0=["I1", "I2"], rand=list(rand))
                        cfg = annenv.mon_cfg(tc, ["I1", "I2"], ["I1", "I2"])
                        cfg["dsts"] = ["mc", "a1", "a2", "a3", "a4", "a5"]
                        out.append({"cfg": cfg, "ev": monpass.add_adv(ev), "sched": sched, "variant": v, "ann0": ["I1", "I2"], "rand": rand,
                                    "insts": ["I1", "I2"], "diag": {"variant": v, "family": "reboot evidence while the answer is pending"}})
    return out


def restart_while_answer_pending():
    """a multicast find is accepted, its answer waits for the request-response delay; meanwhile the instance is stopped and
    started again: the answer may only go out if the instance is ready again by then (never during its initial wait)"""
    from .. import annenv, monpass
    out = []
    for v in "BDE":
        tc = anngen.TIMINGS[v]
        for rr in range(tc["rrMin"], tc["rrMax"] + 1):
            for init in range(tc["initMin"], tc["initMax"] + 1):
                for gap in (0, 1):
                    for how in ("ann", "inst"):
                        t0 = 12
                        sched = [{"t": 0, "j": 0, "op": "ann_start"},
                                 {"t": t0, "j": 0, "op": "rx", "src": "a1", "mc": True, "sid": 3, "rb": True, "uc": True,
                                  "es": [{"ty": "find", "svc": "f1x", "ttl": 3, "opts": []}]}]
                        if how == "ann":
                            sched += [{"t": t0 + gap, "j": 1, "op": "ann_stop"}, {"t": t0 + gap, "j": 1, "op": "ann_start"}]
                        else:
                            sched += [{"t": t0 + gap, "j": 1, "op": "stop_announce", "inst": "I1"}, {"t": t0 + gap, "j": 1, "op": "announce", "inst": "I1"}]
                        # random draws in order: initial delays of I1, I2 at the first start, the answer delay, the new initial delay(s)
                        rand = [tc["initMin"], tc["initMin"], rr, init, init]
                        ev, _ = annenv.run_schedule(sched, tc, ["I1", "I2"], ann0=["I1", "I2"], rand=list(rand))
                        cfg = annenv.mon_cfg(tc, ["I1", "I2"], ["I1", "I2"])
                        cfg["dsts"] = ["mc", "a1", "a2", "a3", "a4", "a5"]
                        out.append({"cfg": cfg, "ev": monpass.add_adv(ev), "sched": sched, "variant": v, "ann0": ["I1", "I2"], "rand": rand,
                                    "insts": ["I1", "I2"], "diag": {"variant": v, "family": "stop and start while the answer is pending"}})
    return out


def check(ctx):
    m1 = Mode1(ctx, "MC_Ann")
    m1.holds("C12_A", "C12_quick.cfg")
    if not ctx.quick:
        m1.holds("C12_B", "C12_quick.cfg", {"C12_A": "C12_B"}, timeout=3000)
        m1.holds("C12_A, 5 inputs", "C12_quick.cfg", {"MaxEv = 3": "MaxEv = 5"}, timeout=3000)
    m1.holds("C12_S (two instances of one service)", "C12_quick.cfg", {"C12_A": "C12_S", "C12_Inputs": "C12_SInputs"}, timeout=3000)
    m1.caught("SwD5", "C12_quick.cfg")
    traces = anngen.run(ctx.seed, ctx.pick(360, 6000), ctx.pick(8, 12), INSTS, list("ABCDEF"), tag="c12")
    # finds of requesters that also hold subscriptions and reboot now and then (answers must not get lost on the way)
    traces2 = anngen.run(ctx.seed, ctx.pick(240, 3000), ctx.pick(8, 12), ["I1", "I2", "I4"], list("BDFB"), tag="c12s", with_sub=True, find_share=0.6)
    # the same service announced twice (two listeners, two endpoints): every one of them answers
    traces3 = anngen.run(ctx.seed, ctx.pick(120, 1500), ctx.pick(8, 12), ["I1", "I6", "I2"], list("ABF"), tag="c12t")
    # an instance constructed with a Timings object of its own (another ANNOUNCE_TTL than the stack's) next to an ordinary one
    traces4 = anngen.run(ctx.seed, ctx.pick(90, 900), ctx.pick(8, 12), ["I1", "I7"], list("ABF"), tag="c12o")
    # the application queues its stop() with call_soon: it runs among the library's own callbacks of the next iteration
    traces5 = anngen.run(ctx.seed, ctx.pick(120, 1500), ctx.pick(8, 12), ["I1", "I2", "I4"], list("BDEF"), tag="c12q", defer_share=0.5)
    bad, ms = judge(ctx, "Mon_C12", traces + traces2 + traces3 + traces4 + traces5 + reboot_while_answer_pending() + restart_while_answer_pending(), "find histories", anngen.payload)
    sim = anngen.spec_to_code_ann(ctx, "Mon_C12", "C12_S", "C12_SInputs", "B", ["I1", "I4"], ["I1", "I4"], ctx.pick(20, 300))
    acc, total = anngen.conform_by_variant(ctx, traces, ctx.pick(100, 1000))
    acc4, total4 = anngen.conform_by_variant(ctx, traces4, ctx.pick(18, 150))
    acc5, total5 = anngen.conform_by_variant(ctx, traces5, ctx.pick(24, 200))
    acc, total = acc + acc4 + acc5, total + total4 + total5
    cov = dict(states=m1.states, transitions=m1.trans, traces_validated_against_impl=acc, monitor_traces=len(traces),
               monitor_failures=bad, monitor_states=ms, conformance_traces=total, spec_drift=total - acc,
               tlc_runs=m1.runs, exhaustive=False, **sim,
               finds=sum(1 for t in traces for i in t["sched"] if i["op"] == "rx" for e in i["es"] if e["ty"] == "find"),
               samples=[{"variant": traces[1]["variant"], "schedule": traces[1]["sched"], "trace": traces[1]["ev"][:24]}],
               rule="TLC: two instances x finds {matching each, matching none} by unicast/multicast at every instant of the "
                    "lifecycle x Mon_C12; real code: five instances (two sharing a service id, two sharing service and instance id with different major versions, one configured with wildcard ids), nine find filters "
                    "covering every wildcard combination / mismatch, six timing configurations")
    return ctx.finish("model_checking", cov)


def replay(ctx, rep):
    bad, _ = judge(ctx, "Mon_C12", [anngen.rerun(rep["payload"])], "replay", anngen.payload)
    print("replay: %s" % ("violation reproduced" if bad else "no violation on the current tree"))
    return 1 if bad else 0
