"""C12: FindService answered only by matching, ready instances, by unicast, in time."""
from . import anngen
from .common import Mode1, judge

INSTS = ["I1", "I2", "I3", "I4", "I5"]


def check(ctx):
    m1 = Mode1(ctx, "MC_Ann")
    m1.holds("C12_A", "C12_quick.cfg")
    if not ctx.quick:
        m1.holds("C12_B", "C12_quick.cfg", {"C12_A": "C12_B"}, timeout=3000)
    m1.holds("C12_S (two instances of one service)", "C12_quick.cfg", {"C12_A": "C12_S", "C12_Inputs": "C12_SInputs"}, timeout=3000)
    m1.caught("SwD5", "C12_quick.cfg")
    traces = anngen.run(ctx.seed, ctx.pick(360, 6000), ctx.pick(8, 12), INSTS, list("ABCDEF"), tag="c12")
    bad, ms = judge(ctx, "Mon_C12", traces, "find histories", anngen.payload)
    sim = anngen.spec_to_code_ann(ctx, "Mon_C12", "C12_S", "C12_SInputs", "B", ["I1", "I4"], ["I1", "I4"], ctx.pick(20, 300))
    acc, total = anngen.conform_by_variant(ctx, traces, ctx.pick(100, 1000))
    cov = dict(states=m1.states, transitions=m1.trans, traces_validated_against_impl=acc, monitor_traces=len(traces),
               monitor_failures=bad, monitor_states=ms, conformance_traces=total, spec_drift=total - acc,
               tlc_runs=m1.runs, exhaustive=False, **sim,
               finds=sum(1 for t in traces for i in t["sched"] if i["op"] == "rx" for e in i["es"] if e["ty"] == "find"),
               samples=[{"variant": traces[1]["variant"], "schedule": traces[1]["sched"], "trace": traces[1]["ev"][:24]}],
               rule="TLC: two instances x finds {matching each, matching none} by unicast/multicast at every instant of the "
                    "lifecycle x Mon_C12; real code: five instances (two sharing a service id, two sharing service and instance id with different major versions, one configured with wildcard ids), nine find filters "
                    "covering every wildcard combination / mismatch, six timing configurations")
    return ctx.finish("model_checking", cov)


def replay(ctx, rep):
    bad, _ = judge(ctx, "Mon_C12", [anngen.rerun(rep["payload"])], "replay", anngen.payload)
    print("replay: %s" % ("violation reproduced" if bad else "no violation on the current tree"))
    return 1 if bad else 0
