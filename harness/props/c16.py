"""C16: method calls get exactly one correctly correlated reply (SimpleService.message_received)."""
import random

from .. import funcpass, sdenv, tlc
from ..framework import Machinery
from ..sdenv import hdr
from ..vloop import FakeTransport, new_loop

MT = [0, 1, 2, 0x40, 0x41, 0x42, 0x80, 0x81, 0xC0, 0xC1]
RC = list(range(11))
HANDLERS = {"bytes": 0x0010, "none": 0x0011, "malformed": 0x0012}
SID, IV = 0x1234, 3


def make_service():
    import someip.service as service

    class Svc(service.SimpleService):
        service_id = SID
        version_major = IV
        version_minor = 1
    sent = []
    svc = Svc(1)
    svc.transport = FakeTransport(lambda data, addr: sent.append((bytes(data), addr)))
    state = {}

    def h_bytes(msg, addr):
        return state["hpayload"]

    def h_none(msg, addr):
        return None

    def h_mal(msg, addr):
        raise service.MalformedMessageError("no")
    import functools

    class Callable:          # a handler object (no __name__, like functools.partial)
        def __call__(self, msg, addr):
            return h_none(msg, addr)
    svc.register_method(HANDLERS["bytes"], functools.partial(lambda extra, msg, addr: h_bytes(msg, addr), "bound argument"))
    svc.register_method(HANDLERS["none"], Callable())
    svc.register_method(HANDLERS["malformed"], h_mal)
    return svc, sent, state


def one(svc, sent, state, row, rng, via_bytes, dictionary=False):
    mc, svc_ok, iface_ok, known, mt, rc, handler = row
    sid = SID if svc_ok else rng.choice([SID ^ 1, 0, 0xFFFF, SID + 0x100])
    iv = IV if iface_ok else rng.choice([IV + 1, 0, 0xFF, IV - 1])
    mid = HANDLERS[handler] if known else rng.choice([0x0013, 0, 0xFFFF, 0x8010])
    cid, sess = rng.choice([0, 1, 0xFFFF, rng.randint(0, 0xFFFF)]), rng.choice([0, 1, 0xFFFF, rng.randint(0, 0xFFFF)])
    payload = bytes(rng.randint(0, 255) for _ in range(rng.choice([0, 0, 1, 5, 40])))
    state["hpayload"] = bytes(rng.randint(0, 255) for _ in range(rng.choice([0, 1, 3, 20])))
    if dictionary:       # values the SOME/IP specification gives a meaning elsewhere (magic cookies of the TCP binding, SD): here they
        # are ids like any other -- a message for another service with another interface version and an unknown method
        sid, iv = 0xFFFF, 1
        mid = rng.choice([0x0000, 0x8000, 0x8100])
        cid, sess = rng.choice([(0xDEAD, 0xBEEF), (0xDEAD, 0xBEEF), (0, 1)])
        payload = b"" if rng.random() < 0.8 else b"\x00"
    msg = hdr.SOMEIPHeader(service_id=sid, method_id=mid, client_id=cid, session_id=sess, interface_version=iv,
                           message_type=hdr.SOMEIPMessageType(mt), return_code=hdr.SOMEIPReturnCode(rc), payload=payload)
    sender = rng.choice([("192.0.2.7", 40000), ("2001:db8::7", 40001, 0, 0), ("192.0.2.8", 1)])
    del sent[:]
    exc = None
    try:
        import warnings
        with warnings.catch_warnings():
            warnings.simplefilter("ignore")
            if via_bytes:
                svc.datagram_received(msg.build(), sender, multicast=mc)
            else:
                svc.message_received(msg, sender, mc)
    except Exception as e:
        exc = repr(e)
    replies = []
    for data, addr in sent:
        try:
            r, rest = hdr.SOMEIPHeader.parse(data)
            replies.append({"dst": list(addr) if addr else [], "sender": list(sender), "sid": r.service_id, "mid": r.method_id,
                            "cid": r.client_id, "sess": r.session_id, "iv": r.interface_version, "mt": int(r.message_type),
                            "rc": int(r.return_code), "payload": list(r.payload), "pv": r.protocol_version,
                            "rest": len(rest)})
        except Exception as e:
            replies.append({"dst": list(addr) if addr else [], "sender": list(sender), "sid": -1, "mid": -1, "cid": -1, "sess": -1,
                            "iv": -1, "mt": -1, "rc": -1, "payload": [], "pv": -1, "rest": 0, "undecodable": repr(e)})
    return {"mc": mc, "svcOK": svc_ok, "ifaceOK": iface_ok, "known": known, "mt": mt, "rc": rc, "handler": handler,
            "req": {"sid": sid, "mid": mid, "cid": cid, "sess": sess, "iv": iv}, "hpayload": list(state["hpayload"]),
            "replies": replies, "exc": exc, "via": "datagram" if via_bytes else "message"}


def check(ctx):
    res = tlc.run("MC_C16", "C16.cfg", timeout=600)
    if res.error or res.timeout:
        raise Machinery("TLC failed on Service/C16.cfg: %s" % (res.error or "timeout")[:500])
    if res.violated:
        ctx.violation({"clause": "design:" + res.violated, "source": "TLC table"}, {"trace": res.trace})
    rng = random.Random("c16/%s" % ctx.seed)
    svc, sent, state = make_service()
    rows = [(mc, a, b, c, mt, rc, h) for mc in (False, True) for a in (True, False) for b in (True, False)
            for c in (True, False) for mt in MT for rc in RC for h in HANDLERS]
    per_row = ctx.pick(1, 4)
    recs = []
    for row in rows:
        for k in range(per_row):
            recs.append(one(svc, sent, state, row, rng, via_bytes=(k % 2 == 0)))
        if not (row[1] or row[2] or row[3]) and row[6] == "bytes":
            for k in range(3):
                recs.append(one(svc, sent, state, row, rng, via_bytes=(k % 2 == 0), dictionary=True))
    verdicts, st = funcpass.run("Service", "ServiceVerdict", recs)
    bad = 0
    for r, v in zip(recs, verdicts):
        if r["exc"]:
            v = v or "exception_escaped"
        if v:
            bad += 1
            ctx.violation({"clause": v, "source": "SimpleService.%s_received" % r["via"],
                           "row": [r[k] for k in ("mc", "svcOK", "ifaceOK", "known", "mt", "rc", "handler")]}, {"record": r})
    cov = dict(states=res.distinct, transitions=res.generated, traces_validated_against_impl=len(recs) - bad,
               records=len(recs), table_rows=len(rows), record_states=st, exhaustive=True,
               samples=[recs[0], recs[len(recs) // 2]],
               rule="TLC: every row of the decision table (2 x 2 x 2 x 2 x 10 message types x 11 return codes x 3 handler "
                    "behaviours = 5280 rows, one state per row) satisfies the laws of the statement; real code: every row "
                    "instantiated with boundary / random ids and payloads through message_received and datagram_received "
                    "on a real SimpleService, each recorded reply compared by TLC with Service!Decision")
    return ctx.finish("model_checking", cov, assumptions=["replies are decoded with SOMEIPHeader.parse (checked by C01)"])


def replay(ctx, rep):
    r = rep["payload"]["record"]
    rng = random.Random(1)
    svc, sent, state = make_service()
    row = (r["mc"], r["svcOK"], r["ifaceOK"], r["known"], r["mt"], r["rc"], r["handler"])
    bad = 0
    for k in range(6):
        rec = one(svc, sent, state, row, rng, via_bytes=(k % 2 == 0))
        v, _ = funcpass.run("Service", "ServiceVerdict", [rec])
        if v[0] or rec["exc"]:
            bad += 1
            ctx.violation({"clause": v[0] or "exception_escaped", "source": "replay"}, {"record": rec})
    print("replay: %s" % ("violation reproduced" if bad else "no violation on the current tree"))
    return 1 if bad else 0
