"""C15: queued SD entries are sent exactly once, in order, to the right peer, in time.
announcer.queue_send driven directly (public) from the I/O phase, incl. the very iteration in
which a collection window closes, bursts, and requests while the announcer is being stopped."""
import random

from .. import annenv, monpass
from . import anngen
from .common import Mode1, conformance, judge

INSTS = ["I1"]
DSTS = ["mc", "a1", "a2", "a3", "a4", "a5"]


def gen(rng, n, collect):
    sched, tag, started = [], 0, False
    sids = {}
    t = 0
    # destinations of this history: multicast and two IPv4 peers, or two peers that differ only in their IPv6 scope id
    dsts = ["mc", "a4", "a5"] if rng.random() < 0.25 else ["mc", "a1", "a2"]
    huge = rng.random() < 0.1        # one history in ten: bursts that do not fit one 1400-byte datagram
    if rng.random() < 0.6:       # the destinations have been heard before: a later message with session id 1 is reboot evidence
        for src in dsts[1:]:
            for mc in (False, True):
                sids[(src, mc)] = 5
                sched.append({"t": 0, "j": 0, "op": "rx", "src": src, "mc": mc, "sid": 5, "rb": True, "uc": True, "es": []})
    for _ in range(n):
        dt = rng.choice([0, 0, 0, 0, 1, 1, 2] if collect else [0, 0, 1, 2])
        t += dt
        j = rng.choice([0, 0, 1, 2, 3])
        if dt == 0 and sched:
            j = max(j, sched[-1]["j"])
        r = rng.random()
        if r < 0.12:
            sched.append({"t": t, "j": j, "op": "ann_stop" if started else "ann_start"})
            started = not started
        elif r < 0.22 and len(dsts) > 1:
            # an (empty) SD message of one of the destinations, now and then with reboot evidence: nothing queued for it may get lost
            src = rng.choice(dsts[1:])
            mc = rng.random() < 0.5
            k = (src, mc)
            sids[k] = 1 if (k not in sids or rng.random() < 0.7) else sids[k] + 1
            sched.append({"t": t, "j": j, "op": "rx", "src": src, "mc": mc, "sid": sids[k], "rb": True, "uc": True, "es": []})
        else:
            burst = rng.choice([1, 1, 1, 2, 3, rng.randint(16, 40)]) if r < 0.95 else 1
            if huge and burst > 3:
                burst = rng.randint(90, 130)
            dst = rng.choice(dsts)
            for _ in range(burst):
                tag += 1
                sched.append({"t": t, "j": j, "op": "queue", "dst": dst if rng.random() < 0.8 else rng.choice(dsts),
                              "en": {"ty": "offer", "svc": "g", "tag": tag, "ttl": 5, "opts": []}})
    return sched


def traces_for(seed, count, length):
    out = []
    for n in range(count):
        rng = random.Random("c15/%s/%s" % (seed, n))
        collect = [0, 1, 1, 2][n % 4]
        tc = annenv.tcfg(collect=collect, cyclic=[4, 0][n % 2])
        sched = gen(rng, rng.randint(2, length), collect)
        # now and then one transmission fails (the transport raises after the datagram was handed over): later ones must still go out
        fails = [rng.randint(0, 4)] if collect and n % 5 == 4 else []
        ev, _ = annenv.run_schedule(sched, tc, INSTS, ann0=INSTS, t_extra=collect + 6, send_failures=fails)
        out.append({"cfg": {"collect": collect, "dsts": DSTS}, "ev": monpass.add_adv(ev), "sched": sched, "tc": tc, "fails": fails,
                    "diag": {"collect": collect, "failed_sends": fails}})
    return out


def rerun(p):
    ev, _ = annenv.run_schedule(p["sched"], p["tc"], INSTS, ann0=INSTS, t_extra=p["tc"]["collect"] + 6, send_failures=p.get("fails", ()))
    return {"cfg": {"collect": p["tc"]["collect"], "dsts": DSTS}, "ev": monpass.add_adv(ev), "sched": p["sched"], "tc": p["tc"]}


def payload(tr):
    return {"sched": tr["sched"], "tc": tr["tc"], "trace": tr["ev"], "fails": tr.get("fails", [])}


def check(ctx):
    m1 = Mode1(ctx, "MC_Ann")
    m1.holds("collect 1", "C15_quick.cfg", None if ctx.quick else {"MaxEv = 4": "MaxEv = 5"}, timeout=3000)
    m1.holds("collect 0", "C15_quick.cfg", {"C15_Cfg1": "C15_Cfg0"})
    m1.caught("SwCancel", "C15_quick.cfg")
    traces = traces_for(ctx.seed, ctx.pick(300, 5000), ctx.pick(10, 16))
    bad, ms = judge(ctx, "Mon_C15", traces, "queue_send histories", payload)
    from .common import spec_to_code
    tc1 = annenv.tcfg(collect=1, cyclic=4)
    sim = spec_to_code(ctx, {"Inputs": "C15_Inputs", "Match": "<<>>", "Cfg": "[C15_Cfg1 EXCEPT !.maxId = 65535, !.timerPhase = FALSE]",
                             "Sw": "AllOff", "MaxEv": 7, "MaxIdle": 3, "MaxPerPoll": 2},
                       ctx.pick(25, 400), 90, lambda sched: annenv.run_schedule(sched, tc1, INSTS, ann0=INSTS, t_extra=8),
                       "Mon_C15", {"collect": 1, "dsts": DSTS})
    groups = {}
    for tr in traces[: ctx.pick(80, 800)]:
        if max(len(e.get("es", [])) for e in tr["ev"]) <= 6 and not tr.get("fails"):      # (long bursts make the bag comparison slow)
            groups.setdefault((tr["tc"]["collect"], tr["tc"]["cyclic"]), []).append(tr)
    acc = total = 0
    for (c, cy), trs in groups.items():
        a, t, _ = conformance(ctx, "SDTrace", annenv.spec_consts(annenv.tcfg(collect=c, cyclic=cy), INSTS, ann0=INSTS), trs)
        acc += a
        total += t
    cov = dict(states=m1.states, transitions=m1.trans, traces_validated_against_impl=acc, monitor_traces=len(traces),
               monitor_failures=bad, monitor_states=ms, conformance_traces=total, spec_drift=total - acc, tlc_runs=m1.runs, **sim,
               entries_queued=sum(1 for t in traces for i in t["sched"] if i["op"] == "queue"), exhaustive=False,
               samples=[{"collect": traces[1]["tc"]["collect"], "schedule": traces[1]["sched"][:10], "trace": traces[1]["ev"][:16]}],
               rule="TLC: collector / queue_send / send_sd of SD.tla x Mon_C15: all schedules of 4(-5) inputs {queue to 3 "
                    "destinations, start, stop} from the I/O and the timer phase at every tick incl. the closing instant of "
                    "a window; real code: seeded histories with bursts up to 40 entries, collection timeout 0/1/2, requests "
                    "in the iteration of announcer.stop()")
    return ctx.finish("model_checking", cov)


def replay(ctx, rep):
    bad, _ = judge(ctx, "Mon_C15", [rerun(rep["payload"])], "replay", payload)
    print("replay: %s" % ("violation reproduced" if bad else "no violation on the current tree"))
    return 1 if bad else 0
