"""./check selftest -- demonstrates that the specification is bound to the code (DESIGN §5).

 (c) runs of two real stacks are accepted by SD2Trace as recorded and rejected when one instant is corrupted.

 (a) traces recorded from the current tree are accepted by SDTrace (conformance); each of them, corrupted in one
     place (an output dropped / duplicated / altered / moved one tick), must be rejected;
     corruptions that touch a property must make its monitor fail.
 (b) the pinned commit 06eaa50 (before the `fix:` commits) is exported to a scratch directory and traces are
     recorded there with the same generators: the specification with the as-shipped deviations switched on
     (Sw = AsShipped) has to explain them, the repaired design (Sw = AllOff) has to reject part of them, and the
     property monitors have to report the defects that were repaired.

Exit 0: the binding behaves as described; exit 2: it does not (a machinery failure -- never a VIOLATION).
"""
import copy
import json
import os
import shutil
import subprocess
import sys
import tempfile

PINNED = "06eaa50"
REPO = "/repo"


# ------------------------------------------------------------------------------ recording
def record(seed, n):
    """{kind: [ {group, consts, mon, cfg, ev, ...} ]} from whatever tree VERIF_REPO points at"""
    from . import annenv
    from .props import anngen, c05, c14, c17
    out = {}
    tr = c05.random_traces("selftest/%s" % seed, n, 12)
    out["disc"] = [dict(t, group="disc", consts=c05.trace_consts(), mon="Mon_C05") for t in tr]
    tr = anngen.run("selftest/%s" % seed, n, 8, ["I1", "I2"], ["A", "B0"], tag="selftest")
    out["ann"] = [dict(t, group="ann/%s/%s" % (t["variant"], ",".join(t["ann0"])),
                       consts=annenv.spec_consts(anngen.TIMINGS[t["variant"]], t["insts"], ann0=t["ann0"]), mon="Mon_C10")
                  for t in tr]
    tr = c14.traces_for("selftest/%s" % seed, n, 10)
    out["sub"] = [dict(t, group="sub/" + t["var"], consts=c14.spec_consts(t["var"]), mon="Mon_C14") for t in tr]
    tr = [t for t in c17.traces_for("selftest/%s" % seed, 4 * n, 9)
          if not t["dns"] and not any(t["burn"].values()) and all(i["op"] != "eg_badsub" for i in t["sched"])][:n]
    out["eg"] = [dict(t, group="eg/%d" % t["interval"], consts=c17.spec_consts(t["interval"]), mon="Mon_C17") for t in tr]
    for k in out:
        for t in out[k]:
            t.pop("diag", None)
    return out


def _conform(traces, sw):
    """-> list of accepted flags (same order)"""
    from . import conform
    groups = {}
    for i, t in enumerate(traces):
        groups.setdefault(t["group"], []).append(i)
    res = [None] * len(traces)
    for g, idx in groups.items():
        consts = dict(traces[idx[0]]["consts"])
        consts["Sw"] = sw
        conf, _ = conform.run("SDTrace", consts, [traces[i] for i in idx])
        for i, c in zip(idx, conf):
            res[i] = bool(c[0])
    return res


def _monitor(traces):
    from . import monpass
    mons = {}
    for i, t in enumerate(traces):
        mons.setdefault(t["mon"], []).append(i)
    res = [None] * len(traces)
    for m, idx in mons.items():
        verdicts, _ = monpass.run(m, [traces[i] for i in idx])
        for i, v in zip(idx, verdicts):
            res[i] = v[0]
    return res


# ------------------------------------------------------------------------------ corruptions
def _raw(t):
    return [e for e in t["ev"] if e.get("k") != "adv"]


def _outs(ev):
    return [i for i, e in enumerate(ev) if e.get("k") == "out" and e.get("op") != "cl_applied"]


def corrupt(t, kind, rng):
    """one corrupted copy of trace t, or None when the corruption is not applicable"""
    from .monpass import add_adv
    ev = copy.deepcopy(_raw(t))
    outs = _outs(ev)
    if not outs:
        return None
    i = rng.choice(outs)
    if kind == "drop_output":
        del ev[i]
    elif kind == "duplicate_output":
        ev.insert(i, copy.deepcopy(ev[i]))
    elif kind == "alter_output":
        e = ev[i]
        if "dst" in e:
            e["dst"] = "a2" if e["dst"] != "a2" else "a1"
        elif "src" in e and isinstance(e["src"], str):
            e["src"] = "a2" if e["src"] != "a2" else "a1"
        elif "lst" in e:
            e["lst"] = "L1" if e["lst"] != "L1" else "L2"
        else:
            return None
    elif kind == "output_one_tick_late":
        e = ev.pop(i)
        e["t"] += 1
        j = i
        while j < len(ev) and ev[j].get("t", 0) <= e["t"] - 1:
            j += 1
        # after everything of its old tick, in front of the idle marker that closes the new tick's first poll
        while j < len(ev) and ev[j].get("t", 0) == e["t"] and ev[j].get("k") != "idle":
            j += 1
        ev.insert(j, e)
    else:
        raise ValueError(kind)
    c = dict(t)
    c["ev"] = add_adv(ev)
    return c


CORRUPTIONS = ["drop_output", "duplicate_output", "alter_output", "output_one_tick_late"]


def part_a(say, n):
    import random
    rec = record(0, n)
    ok = True
    summary = {}
    for kind, traces in rec.items():
        acc = _conform(traces, "AllOff")
        base = [t for t, a in zip(traces, acc) if a]
        say("(a) %-4s: %d/%d recorded traces accepted by SDTrace (Sw = AllOff)" % (kind, len(base), len(traces)))
        if len(base) < len(traces):
            ok = False
        row = {"recorded": len(traces), "accepted": len(base)}
        for c in CORRUPTIONS:
            rng = random.Random("corrupt/%s/%s" % (kind, c))
            bad = [x for x in (corrupt(t, c, rng) for t in base) if x is not None]
            if not bad:
                continue
            a2 = _conform(bad, "AllOff")
            rejected = sum(1 for a in a2 if not a)
            mon = sum(1 for v in _monitor(bad) if v)
            row[c] = {"corrupted": len(bad), "rejected_by_conformance": rejected, "monitor_failures": mon}
            say("(a) %-4s: %-22s %3d corrupted traces, %3d rejected by conformance, %3d fail the property monitor"
                % (kind, c, len(bad), rejected, mon))
            if rejected < len(bad):
                ok = False
                say("    NOT REJECTED: a corrupted trace was accepted")
        summary[kind] = row
    return ok, summary


# ------------------------------------------------------------------------------ pinned commit
EXPECT_PINNED = {     # monitor -> clauses that the repaired defects produce on the pinned tree (at least one must show up)
    "Mon_C05": None, "Mon_C10": None, "Mon_C17": None,
}


def part_b(say, n):
    d = tempfile.mkdtemp(prefix="pysomeip_pinned_")
    try:
        p = subprocess.run("git -C %s archive %s src | tar -x -C %s" % (REPO, PINNED, d), shell=True)
        if p.returncode != 0 or not os.path.isdir(os.path.join(d, "src", "someip")):
            say("(b) cannot export %s from /repo (shallow history?): skipped" % PINNED)
            return True, {"skipped": True}
        env = dict(os.environ, VERIF_REPO=d, PYTHONHASHSEED="0")
        out = os.path.join(d, "rec.json")
        p = subprocess.run([sys.executable, "-m", "harness.selftest", "--record", out, str(n)], env=env,
                           cwd=os.path.dirname(os.path.dirname(os.path.abspath(__file__))), capture_output=True, text=True)
        if p.returncode != 0:
            say("(b) recording on the pinned tree failed:\n" + p.stdout[-1500:] + p.stderr[-1500:])
            return False, {}
        rec = json.load(open(out))
    finally:
        shutil.rmtree(d, ignore_errors=True)
    ok = True
    summary = {}
    for kind, traces in rec.items():
        shipped = _conform(traces, "AsShipped")
        repaired = _conform(traces, "AllOff")
        mon = _monitor(traces)
        clauses = {}
        for v in mon:
            if v:
                clauses[v] = clauses.get(v, 0) + 1
        summary[kind] = {"recorded": len(traces), "accepted_AsShipped": sum(shipped), "accepted_AllOff": sum(repaired),
                         "monitor_failures": sum(1 for v in mon if v), "clauses": clauses}
        say("(b) %-4s: %3d traces of %s: %3d explained by Sw = AsShipped, %3d by Sw = AllOff, %3d fail %s %s"
            % (kind, len(traces), PINNED, sum(shipped), sum(repaired), sum(1 for v in mon if v), traces[0]["mon"] if traces else "",
               json.dumps(clauses)))
    # what has to be true for the binding to be credible
    for kind in ("disc", "ann"):
        s = summary[kind]
        if s["accepted_AllOff"] >= s["recorded"]:
            ok = False
            say("    the repaired design explains every %s trace of the pinned tree: the deviations are not observable" % kind)
        if s["monitor_failures"] == 0:
            ok = False
            say("    no monitor failure on the pinned tree for %s" % kind)
    for kind, s in summary.items():
        if s["accepted_AsShipped"] < s["recorded"]:
            ok = False
            say("    the specification with the as-shipped deviations does not explain every %s trace of the pinned tree" % kind)
    return ok, summary


def part_c(say, n):
    """two-stack runs against SD2.tla: accepted as recorded, rejected when one instant is corrupted"""
    import copy
    import random
    from . import conform
    from .props import c04
    traces = [t for t in c04.traces_for("selftest", 3 * n, 4) if t["config"] in ("fin", "fin1")][:n]
    for t in traces:
        t["ticks"] = conform.ticks_of([e for e in t["ev"] if e.get("k") != "adv"])
    ok = True
    summary = {}
    for name in ("fin", "fin1"):
        sel = [t for t in traces if t["config"] == name]
        consts = {"Match": "C04_Match", "Cfg": "C04_" + name, "Sw": "AllOff"}
        res, _ = conform.run2(consts, sel)
        good = [t for t, r in zip(sel, res) if r[0]]
        say("(c) %-4s: %d/%d two-stack runs accepted by SD2Trace" % (name, len(good), len(sel)))
        ok = ok and len(good) == len(sel)
        # corruption experiments only on runs in which the specification has no choice that could explain a missing or an extra
        # datagram: no one-shot drop / duplication / delay (which datagram it hits depends on the interleaving of the two loops)
        good = [t for t in good if all(f["kind"] not in ("drop", "dup", "delay") for f in t["faults"])]
        row = {"recorded": len(sel), "accepted": len(good)}
        for kind in ("drop_output", "duplicate_output", "alter_ttl", "move_to_next_instant"):
            rng = random.Random("corrupt2/%s/%s" % (name, kind))
            bad = []
            for t in good:
                tk = copy.deepcopy(t["ticks"])
                # (not the last instant: a trace cut short is a prefix of a behaviour and rightly accepted)
                # (the start-up phase, up to the instant of the first `subscribed`: the find of the watcher races the first offer --
                #  whether the offerer answers it by unicast depends on the interleaving of the two loops, so the specification
                #  explains a run with that answer missing: seen at t = 1 of a fin1 run with SELFTEST_N = 40)
                first = min([i for i, x in enumerate(tk) if ["subscribed", "srv"] in x["outs"]] or [0])
                cand = [i for i, x in enumerate(tk[:-1]) if x["outs"] and i > first]
                if not cand:
                    continue
                i = rng.choice(cand)
                j = rng.randrange(len(tk[i]["outs"]))
                o = tk[i]["outs"][j]
                if kind == "drop_output":
                    del tk[i]["outs"][j]
                elif kind == "duplicate_output":
                    tk[i]["outs"].append(copy.deepcopy(o))
                elif kind == "alter_ttl":
                    w = [x for x in tk[i]["outs"] if x[0] == "wire" and x[3]]
                    if not w:
                        continue
                    w[0][3][0][1] = w[0][3][0][1] + 1
                else:
                    if i + 1 >= len(tk):
                        continue
                    tk[i + 1]["outs"].append(tk[i]["outs"].pop(j))
                bad.append({"ticks": [x for x in tk if x["outs"] or x["faults"]]})
            r2, _ = conform.run2(consts, bad)
            rej = sum(1 for r in r2 if not r[0])
            row[kind] = {"corrupted": len(bad), "rejected": rej}
            say("(c) %-4s: %-22s %3d corrupted runs, %3d rejected" % (name, kind, len(bad), rej))
            ok = ok and rej == len(bad)
        summary[name] = row
    return ok, summary


def main(argv):
    if len(argv) >= 2 and argv[0] == "--record":
        rec = record(1, int(argv[2]) if len(argv) > 2 else 40)
        json.dump(rec, open(argv[1], "w"), default=str)
        return 0
    n = int(os.environ.get("SELFTEST_N", "40"))
    lines = []

    def say(s):
        print(s, flush=True)
        lines.append(s)
    ok_a, sa = part_a(say, n)
    ok_b, sb = part_b(say, n)
    ok_c, sc = part_c(say, n)
    ok_b = ok_b and ok_c
    sb = {"pinned": sb, "two_stack": sc}
    here = os.path.dirname(os.path.dirname(os.path.abspath(__file__)))
    os.makedirs(os.path.join(here, "out"), exist_ok=True)
    json.dump({"a": sa, "b": sb, "ok": ok_a and ok_b}, open(os.path.join(here, "out", "selftest.json"), "w"), indent=1)
    print("selftest: %s" % ("ok" if ok_a and ok_b else "BINDING NOT DEMONSTRATED"))
    return 0 if ok_a and ok_b else 2


if __name__ == "__main__":
    sys.exit(main(sys.argv[1:]))
