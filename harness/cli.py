import argparse
import importlib
import json
import os
import sys
import traceback

from . import framework


def main(argv=None):
    ap = argparse.ArgumentParser(prog="check")
    ap.add_argument("prop")
    ap.add_argument("--tier", default=os.environ.get("VERIF_TIER", "quick"), choices=["quick", "thorough"])
    ap.add_argument("--seed", type=int, default=int(os.environ.get("VERIF_SEED", "0") or 0))
    ap.add_argument("--replay")
    a = ap.parse_args(argv)
    prop = a.prop.upper()
    try:
        mod = importlib.import_module("harness.props.%s" % prop.lower())
    except Exception:      # also syntax errors in a check module: a machinery failure, never an alarm
        traceback.print_exc()
        print("MACHINERY-FAILURE %s: the check module cannot be loaded" % prop)
        return 2
    ctx = framework.Ctx(prop, a.tier, a.seed)
    try:
        if a.replay:
            rep = json.load(open(a.replay))
            return mod.replay(ctx, rep)
        rc = mod.check(ctx)
        print("%s tier=%s seed=%d: %s (%.1fs)" % (prop, a.tier, a.seed,
              "VIOLATIONS=%d" % len(ctx.violations) if rc else "ok", __import__("time").time() - ctx.t0))
        return rc
    except framework.Machinery as exc:
        print("MACHINERY-FAILURE %s: %s" % (prop, exc))
        return 2
    except Exception:
        traceback.print_exc()
        if ctx.violations and not a.replay:
            # violations already reported by a monitor on executions of the real code stand; a later stage of the check
            # (conformance, spec-generated schedules) broke down on this tree
            print("NOTE %s: a later stage of the check failed after %d violation(s) had been reported" % (prop, len(ctx.violations)))
            ctx.finish("model_checking", {"states": 0, "transitions": 0, "traces_validated_against_impl": 0, "exhaustive": False,
                                          "samples": [d for d, _ in ctx.violations[:3]],
                                          "rule": "run aborted by an internal error after violations had been found"})
            print("%s tier=%s seed=%d: VIOLATIONS=%d (aborted)" % (prop, a.tier, a.seed, len(ctx.violations)))
            return 1
        print("MACHINERY-FAILURE %s: unexpected exception in the check" % prop)
        return 2


if __name__ == "__main__":
    sys.exit(main())
