"""Driver for everything that goes through ServiceAnnouncer / ServiceInstance / SendCollector:
offer lifecycle (C10), FindService answers (C12), Subscribe handling (C06, C11), send collection
(C15).  One schedule player; the property modules supply generators and monitors."""
from . import sdenv, tlc
from .sdenv import FOREVER, cfg as config, sd

# instance name -> (service name, declared eventgroups)
INST = {
    "I1": ("s1", [1, 2]),
    "I2": ("s3", [1]),
    "I3": ("w3", [1]),
    "I4": ("s2", [1]),      # same service id as I1, other instance: one wildcard find matches both
    "I5": ("s5", [1]),      # same service id AND instance id as I1, other major version
    "I6": ("s1", [1, 2]),   # the very same service as I1 (another listener, another endpoint option): both answer a find
}
INST["I7"] = ("s4", [1])   # an instance constructed with a Timings object of its own: another ANNOUNCE_TTL than the stack's
INST_TTL = {"I7": 30}
SUBSVC = ["s1", "s2", "s3", "s4"]


def many_instances(n):
    """further instances M0 .. M<n-1>, each its own service (scale scenarios: more entries than one datagram should carry)"""
    names = []
    for i in range(n):
        svc, inst = "m%d" % i, "M%d" % i
        if svc not in sdenv.SVC:
            sdenv.SVC[svc] = (0x4000 + i, 1, 1, 0)
            sdenv.RSVC[sdenv.SVC[svc]] = svc
        INST.setdefault(inst, (svc, [1]))
        names.append(inst)
    return names


def tcfg(**kw):
    """timing configuration in integer ticks"""
    base = dict(initMin=0, initMax=0, reps=0, base=1, cyclic=4, annTTL=12, collect=0, rrMin=0, rrMax=0)
    base.update(kw)
    return base


def timings(tc):
    return sdenv.timings(INITIAL_DELAY_MIN=tc["initMin"], INITIAL_DELAY_MAX=tc["initMax"],
                         REPETITIONS_MAX=tc["reps"], REPETITIONS_BASE_DELAY=tc["base"],
                         CYCLIC_OFFER_DELAY=tc["cyclic"], ANNOUNCE_TTL=tc["annTTL"],
                         SEND_COLLECTION_TIMEOUT=tc["collect"], REQUEST_RESPONSE_DELAY_MIN=tc["rrMin"],
                         REQUEST_RESPONSE_DELAY_MAX=tc["rrMax"])


def inst_table(insts):
    return {i: dict({"svc": INST[i][0], "egs": INST[i][1],
                     "subs": [s for s in SUBSVC if sdenv.sub_matches(INST[i][0], s)]},
                    **({"ttl": INST_TTL[i]} if i in INST_TTL else {})) for i in insts}


def find_table(insts):
    svcs = sorted({INST[i][0] for i in insts})
    return {f: [s for s in svcs if sdenv.find_matches(f, s)] for f in sdenv.FIND}


def mon_cfg(tc, insts, ann0=()):
    c = dict(tc)
    c.update(insts=list(insts), inst=inst_table(insts), findMatch=find_table(insts),
             ann0=list(ann0), peers=["a1", "a2", "a3", "a4", "a5"])
    return c


def spec_consts(tc, insts, ann0=(), rand_vals=(0, 1, 2, 3), sw="AllOff", max_id=65535):
    it = inst_table(insts)
    inst = "[" + ", ".join('%s |-> [svc |-> "%s", egs |-> %s, subs |-> %s%s]' %
                           (i, v["svc"], tlc.to_tla(set(v["egs"])), tlc.to_tla(set(v["subs"])), (", ttl |-> %d" % v["ttl"]) if "ttl" in v else "")
                           for i, v in it.items()) + "]" \
        if it else "<<>>"
    fm = "[" + ", ".join('%s |-> %s' % (f, tlc.to_tla(set(v))) for f, v in find_table(insts).items()) + "]"
    fields = ", ".join("%s |-> %d" % (k, v) for k, v in tc.items())
    c = ("[%s, maxId |-> %d, randVals |-> %s, inst |-> %s, ann0 |-> %s, findMatch |-> %s] @@ CfgDefault"
         % (fields, max_id, tlc.to_tla(set(rand_vals)), inst, tlc.to_tla(list(ann0)), fm))
    return {"Match": "<<>>", "Cfg": c, "Sw": sw}


def run_schedule(sched, tc, insts, ann0=(), rand=None, t_extra=None, send_failures=()):
    # (every other schedule configures the timings the late way: fields assigned on the existing protocol object)
    st = sdenv.Stack(tim=timings(tc), rand=rand, late_timings=len(sched) % 2 == 1)
    st.prot.transport.fail = set(send_failures)
    ann = st.prot.announcer

    decisions = []      # (src, svc, eg, ctr, eps) -> acc, for the entries of the datagram being delivered, in order

    def decide(sub, src):
        key = (src, sub["svc"], sub["eg"], sub["ctr"], tuple(sub["eps"]))
        for n, (k, acc) in enumerate(decisions):
            if k == key:
                del decisions[n]
                return acc
        return True
    objs = {}
    for i in insts:
        svcname, egs = INST[i]
        service = sdenv.service(svcname, eventgroups=frozenset(egs), options_1=(sdenv.EP["e1"],) if i == "I1" else (sdenv.EP["e4"],) if i == "I6" else ())
        own = st.prot.timings
        if i in INST_TTL:
            import dataclasses
            own = dataclasses.replace(st.prot.timings, ANNOUNCE_TTL=INST_TTL[i])
        objs[i] = sd.ServiceInstance(service, sdenv.ServerL(st.rec, i, decide), ann, own)
    for i in ann0:
        ann.announce_service(objs[i])
    # an "on-demand" application: the first time a client of <inst> goes away it withdraws the service, from inside the callback
    for inp in sched:
        if inp["op"] == "arm_withdraw":
            i = inp["inst"]
            objs[i].listener.on_unsubscribed = (lambda i=i: st.call({"op": "stop_announce", "inst": i}, ann.stop_announce_service, objs[i]))

    # an application whose client_unsubscribed callback fails (once) for <inst>
    def boom():
        raise sdenv.AppError("client_unsubscribed of the application failed")
    for inp in sched:
        if inp["op"] == "arm_raise":
            objs[inp["inst"]].listener.on_unsubscribed = boom

    def do(inp):
        op = inp["op"]
        ev = {k: v for k, v in inp.items() if k not in ("t", "j")}
        if op == "rx":
            decisions[:] = [((inp["src"], e["svc"], e["eg"], e["ctr"], tuple(e["eps"])), e.get("acc", True))
                            for e in inp["es"] if e["ty"] == "sub" and e["ttl"] != 0]
            st.rx(ev)
        elif op == "ann_start":
            st.call(ev, ann.start)
        elif op == "ann_stop":
            st.call(ev, ann.stop)
        elif op == "announce":
            st.call(ev, ann.announce_service, objs[inp["inst"]])
        elif op == "stop_announce":
            st.call(ev, ann.stop_announce_service, objs[inp["inst"]])
        elif op == "connlost":
            st.call(ev, st.prot.connection_lost, None)
        elif op in ("arm_withdraw", "arm_raise"):
            pass
        elif op == "defer":       # the application queues the call with call_soon: it runs among the library's callbacks of the next iteration
            st.call(ev, st.loop.call_soon, do, inp["e"])
        elif op == "queue":
            st.call(ev, ann.queue_send, sdenv.conc_entry(inp["en"]),
                    remote=None if inp["dst"] == "mc" else sdenv.ADDR[inp["dst"]])
        else:
            raise ValueError(op)
    tmax = 0
    for inp in sched:
        st.loop.inject(inp["t"], (lambda i=inp: do(i)), inp.get("j", 0))
        tmax = max(tmax, inp["t"])
    if t_extra is None:
        t_extra = 2 * max(tc["cyclic"], 2) + tc["initMax"] + tc["rrMax"] + 3
    ev, missed = st.finish(tmax + t_extra)
    # a still running announcer keeps the loop busy for ever: finish() cut it off at the horizon
    return ev, missed
