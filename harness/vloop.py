"""Deterministic virtual-time asyncio loop used by every protocol driver.

VLoop subclasses CPython's BaseEventLoop and therefore reuses the interpreter's own
_run_once / call_soon / call_later / Task machinery unchanged.  Only the selector is
replaced: it advances a virtual clock instead of sleeping and delivers "I/O" callbacks
that the driver injected for a given (tick, iteration index within that tick) position,
which is exactly the granularity of the Loop model in spec/Loop.tla (Poll / Run).
"""
import asyncio
import heapq
import socket
from asyncio import base_events


class _Selector:
    def __init__(self, loop):
        self.loop = loop
        self.k = 0  # iterations already run at the current tick

    def select(self, timeout):
        loop = self.loop
        inj = loop._inject

        def due():
            return inj and inj[0][0] <= loop._now and (inj[0][0] < loop._now or inj[0][1] <= self.k)

        if not due() and timeout != 0:
            # the loop is idle: nothing ready, no timer due now
            loop._idle()
            cands = []
            if timeout is not None:
                cands.append(loop._now + timeout)
            fut = [i[0] for i in inj if i[0] > loop._now]
            if fut:
                cands.append(min(fut))
            same = [i for i in inj if i[0] == loop._now]
            if same:
                cands.append(loop._now)
            if not cands:
                raise RuntimeError("virtual loop stuck: nothing to do")
            nt = min(cands)
            if nt > loop._now:
                loop._now = nt
                self.k = 0
            elif same and not (timeout is not None and timeout <= 0):
                # injection for a later iteration index of this tick, nothing else to run:
                # deliver it now (positions are "at least", see DESIGN §5)
                self.k = max(self.k, min(i[1] for i in same))
        out = []
        while due():
            t, j, _, cb = heapq.heappop(inj)
            if j != self.k or t != loop._now:
                loop.missed.append((t, j, loop._now, self.k))
            out.append(cb)
        self.k += 1
        return out

    def close(self):
        pass


class VLoop(base_events.BaseEventLoop):
    def __init__(self):
        super().__init__()
        self._now = 0.0
        self._inject = []
        self._seq = 0
        self._selector = _Selector(self)
        self._clock_resolution = 2.0 ** -10   # exact in binary, still far below one tick
        self.missed = []
        self.idle_hook = None
        self.exceptions = []
        self.set_exception_handler(self._on_exc)

    exc_hook = None

    def _on_exc(self, loop, context):
        # an exception escaping a plain callback is reported while that callback runs: it can be recorded at its place;
        # "never retrieved" reports of tasks / futures come from the garbage collector and are collected for the end
        if self.exc_hook is not None and "handle" in context and self.exc_hook(context):
            return
        self.exceptions.append(context)

    def _idle(self):
        if self.idle_hook is not None:
            self.idle_hook(self._now)

    def time(self):
        return self._now

    def _process_events(self, events):
        for cb in events:
            self.call_soon(cb)

    def _write_to_self(self):
        pass

    def inject(self, t, cb, j=0):
        """run cb as an I/O callback in iteration index j (0 = first) of tick t"""
        self._seq += 1
        heapq.heappush(self._inject, (float(t), j, self._seq, cb))

    dns_yields = 0      # a real loop resolves in an executor: the caller is suspended for some loop iterations

    async def getaddrinfo(self, host, port, *, family=0, type=0, proto=0, flags=0):
        for _ in range(self.dns_yields):
            await asyncio.sleep(0)
        return socket.getaddrinfo(host, port, family=family, type=type, proto=proto, flags=flags)

    def run_to(self, t_end):
        """run until virtual time t_end has been reached and the loop is idle there"""
        done = []

        def fin():
            done.append(1)
            self.stop()

        self.inject(t_end, fin, j=10**6)
        self.run_forever()
        assert done

    def shutdown(self):
        # cancel whatever is left so that closing is silent
        try:
            for task in asyncio.all_tasks(self):
                task.cancel()
            self._ready.clear()
            self._scheduled.clear()
        finally:
            self.close()


class InjectedSendError(OSError):
    """a transmission the harness lets fail (after recording it): what was queued for later must still go out"""


class FakeTransport:
    def __init__(self, on_send, sockname=("192.0.2.100", 30490)):
        self.on_send = on_send
        self.sockname = sockname
        self.closed = False
        self.fail = set()       # indexes (0, 1, ...) of sendto calls that raise after having been recorded
        self.sends = 0

    def sendto(self, data, addr=None):
        self.on_send(bytes(data), addr)
        self.sends += 1
        if self.sends - 1 in self.fail:
            raise InjectedSendError("injected transmission failure")

    def get_extra_info(self, key, default=None):
        if key == "sockname":
            return self.sockname
        return default

    def close(self):
        self.closed = True


def new_loop():
    loop = VLoop()
    asyncio.set_event_loop(loop)
    return loop
