"""Shared environment for the service-discovery drivers: the table  model value <-> concrete
object, datagram construction / abstraction (through the library's own codec, which is checked
separately by C01/C02), recording listeners and the stack factory on a VLoop.

Everything is imported from /repo/src of the *current working tree* on every run.
"""
import ipaddress
import logging
import os
import random as _random
import sys

REPO = os.environ.get("VERIF_REPO", "/repo")
if os.path.join(REPO, "src") not in sys.path:
    sys.path.insert(0, os.path.join(REPO, "src"))

import someip.config as cfg  # noqa: E402
import someip.header as hdr  # noqa: E402
import someip.sd as sd  # noqa: E402

from .vloop import FakeTransport, new_loop  # noqa: E402

logging.disable(logging.CRITICAL)

FOREVER = 0xFFFFFF
MC = ("224.0.0.251", 30490)

ADDR = {
    "a1": ("192.0.2.1", 30490),
    "a2": ("192.0.2.2", 30490),
    "a3": ("192.0.2.3", 30490),
    "mc": MC,
}
ADDR.update({"e1": ("192.0.2.11", 40001), "e2": ("192.0.2.12", 40002), "e3": ("2001:db8::13", 40003),
             "e4": ("192.0.2.14", 40004)})
# two peers that differ only in the IPv6 scope id (the same link-local address reached over two interfaces)
ADDR.update({"a4": ("fe80::1", 30490, 0, 2), "a5": ("fe80::1", 30490, 0, 3)})
RADDR = {v: k for k, v in ADDR.items() if len(v) == 2}
RADDR[None] = "mc"
RADDR_FULL = {v: k for k, v in ADDR.items()}



def hosts(n):
    """names h0 .. h<n-1> of further peers (scale scenarios: more senders than any bounded table holds)"""
    names = []
    for i in range(n):
        name = "h%d" % i
        if name not in ADDR:
            ADDR[name] = ("10.9.%d.%d" % (i // 250, i % 250 + 1), 30490)
            RADDR[ADDR[name]] = name
            RADDR_FULL[ADDR[name]] = name
        names.append(name)
    return names


def endpoints(n):
    """names q0 .. q<n-1> of further subscriber endpoints (scale scenarios), IPv4 and IPv6 alternating"""
    names = []
    for i in range(n):
        name = "q%d" % i
        if name not in EP:
            if i % 2:
                EP[name] = hdr.IPv6EndpointOption(ipaddress.IPv6Address("2001:db8:8::%x" % (i + 1)), hdr.L4Protocols.UDP, 45000)
                ADDR[name] = ("2001:db8:8::%x" % (i + 1), 45000)
            else:
                EP[name] = hdr.IPv4EndpointOption(ipaddress.IPv4Address("10.8.%d.%d" % (i // 250, i % 250 + 1)), hdr.L4Protocols.UDP, 45000)
                ADDR[name] = ("10.8.%d.%d" % (i // 250, i % 250 + 1), 45000)
            RADDR[ADDR[name]] = name
            RADDR_FULL[ADDR[name]] = name
        names.append(name)
    return names


ANY16, ANY8, ANY32 = 0xFFFF, 0xFF, 0xFFFFFFFF

# concrete services (sid, iid, maj, min)
SVC = {
    "s1": (0x1111, 1, 1, 0),
    "s2": (0x1111, 2, 1, 0),
    "s3": (0x2222, 1, 2, 5),
    "s4": (0x3333, 7, 3, 0),
    "w3": (0x3333, ANY16, ANY8, ANY32),     # an instance configured with wildcard ids
    "s5": (0x1111, 1, 2, 0),                # same service and instance id as s1, next major version (served side by side)
    "s6": (0x1111, 1, 1, 7),                # s1 with another MINOR version (only filters with a concrete minor version tell them apart)
    "s7": (0x1111, 2, 1, 5),                # s2 with another minor version
}
RSVC = {v: k for k, v in SVC.items()}

# filters (wildcards allowed)
FLT = {
    "F1": (0x1111, ANY16, ANY8, ANY32),   # s1, s2
    "F2": (0x1111, 1, 1, ANY32),          # s1
    "F3": (0x2222, ANY16, 2, ANY32),      # s3
    "F4": (0x1111, 2, ANY8, 0),           # s2
    "F5": (0x1111, 1, 1, 0),              # s1, fully specified
}

EP = {
    "e1": hdr.IPv4EndpointOption(ipaddress.IPv4Address("192.0.2.11"), hdr.L4Protocols.UDP, 40001),
    "e2": hdr.IPv4EndpointOption(ipaddress.IPv4Address("192.0.2.12"), hdr.L4Protocols.UDP, 40002),
    "e3": hdr.IPv6EndpointOption(ipaddress.IPv6Address("2001:db8::13"), hdr.L4Protocols.UDP, 40003),
    "e4": hdr.IPv4EndpointOption(ipaddress.IPv4Address("192.0.2.14"), hdr.L4Protocols.TCP, 40004),
}
# local endpoints of the eventgroups a client subscribes to (C14): IPv4/IPv6 x UDP/TCP
EP.update({
    "l1": hdr.IPv4EndpointOption(ipaddress.IPv4Address("192.0.2.100"), hdr.L4Protocols.UDP, 41001),
    "l2": hdr.IPv6EndpointOption(ipaddress.IPv6Address("2001:db8::100"), hdr.L4Protocols.UDP, 41002),
    "l3": hdr.IPv4EndpointOption(ipaddress.IPv4Address("192.0.2.100"), hdr.L4Protocols.TCP, 41003),
    "l4": hdr.IPv6EndpointOption(ipaddress.IPv6Address("2001:db8::100"), hdr.L4Protocols.TCP, 41004),
})
REP = {v: k for k, v in EP.items()}
XOPT = {
    "x1": hdr.SOMEIPSDConfigOption(configs=(("k", "v"),)),
    "x2": hdr.SOMEIPSDLoadBalancingOption(priority=1, weight=2),
    # SD endpoint options naming the SD endpoint of one of the peers (a message may carry one that is not its sender's)
    "sd1": hdr.IPv4SDEndpointOption(ipaddress.IPv4Address("192.0.2.1"), hdr.L4Protocols.UDP, 30490),
    "sd2": hdr.IPv4SDEndpointOption(ipaddress.IPv4Address("192.0.2.2"), hdr.L4Protocols.UDP, 30490),
}
ROPT = dict(REP)
ROPT.update({v: k for k, v in XOPT.items()})
OPT = dict(EP)
OPT.update(XOPT)


def indep_match(flt, svc):
    """independent (harness-side) statement of the wildcard rule, used only to build cfg.match"""
    return flt[0] == svc[0] and all(f in (w,) or f == s for f, s, w in
                                    zip(flt[1:], svc[1:], (ANY16, ANY8, ANY32)))


def match_table(filters, svcs, with_all=True):
    tab = {f: [s for s in svcs if indep_match(FLT[f], SVC[s])] for f in filters}
    if with_all:
        tab["ALL"] = list(svcs)
    return tab


def service(name, **kw):
    s = SVC[name] if name in SVC else FLT[name]
    return cfg.Service(s[0], s[1], s[2], s[3], **kw)


def svc_name(s):
    return RSVC.get((s.service_id, s.instance_id, s.major_version, s.minor_version), "s?")


def addr_name(a):
    if a is None:
        return "mc"
    a = tuple(a)
    return RADDR_FULL.get(a) or RADDR.get(a[:2], "a?")


def opt_name(o):
    return ROPT.get(o, "o?")


# ---------------------------------------------------------------- datagrams
def abs_entry(e):
    """library SOMEIPSDEntry (resolved options) -> abstract entry record"""
    T = hdr.SOMEIPSDEntryType
    opts = [opt_name(o) for o in e.options_1] + [opt_name(o) for o in e.options_2]
    if e.sd_type in (T.OfferService, T.FindService):
        key = (e.service_id, e.instance_id, e.major_version, e.minver_or_counter)
        if e.sd_type == T.FindService:
            return {"ty": "find", "svc": RFIND.get(key, "f?"), "ids": [wild(x) for x in key], "ttl": e.ttl, "opts": opts}
        if e.service_id == 0x7000:      # ghost entry of the C15 driver: the tag travels in the instance id
            return {"ty": "offer", "svc": "g", "tag": e.instance_id, "ttl": e.ttl, "opts": opts}
        return {"ty": "offer", "svc": RSVC.get(key, "s?"), "ids": [wild(x) for x in key], "ttl": e.ttl, "opts": opts}
    return {"ty": "sub" if e.sd_type == T.Subscribe else "ack",
            "ids": [e.service_id, e.instance_id, e.major_version], "eg": e.eventgroup_id,
            "ctr": e.eventgroup_counter, "ttl": e.ttl, "opts": opts,
            "eps": sorted(o for o in opts if o in EP),
            "svc": RSVC.get(_svc3(e), "s?")}


def _svc3(e):
    for k in SVC.values():
        if k[:3] == (e.service_id, e.instance_id, e.major_version):
            return k
    return None


# FindService filters by name (ids with wildcards), and ghost entries for C15 (service 0x7000 + tag)
FIND = {
    "f1": (0x1111, ANY16, ANY8, ANY32),
    "f1x": (0x1111, 1, 1, 0),
    "f1m": (0x1111, 1, 1, 9),
    "f1i": (0x1111, 2, ANY8, ANY32),
    "f1v": (0x1111, 1, ANY8, ANY32),        # any version of instance 1: s1 and s5
    "f3": (0x2222, ANY16, 2, ANY32),
    "f4": (0x3333, ANY16, ANY8, ANY32),
    "f4x": (0x3333, 7, 3, 0),
    "fz": (0x4444, ANY16, ANY8, ANY32),
}
RFIND = {v: k for k, v in FIND.items()}


def find_matches(flt, svc):
    """independent statement of Service.matches_find: only the REQUEST may carry wildcards"""
    f, s = FIND[flt], SVC[svc]
    return f[0] == s[0] and all(a == w or a == b for a, b, w in zip(f[1:], s[1:], (ANY16, ANY8, ANY32)))


def sub_matches(inst_svc, entry_svc):
    """independent statement of Service.matches_subscribe (ids only): only the INSTANCE may carry wildcards"""
    i, e = SVC[inst_svc], SVC[entry_svc]
    return i[0] == e[0] and all(a == w or a == b for a, b, w in zip(i[1:3], e[1:3], (ANY16, ANY8)))


def wild(x):
    return -1 if x in (ANY16, ANY8, ANY32) else x


def conc_entry(a):
    """abstract entry record -> library SOMEIPSDEntry (resolved options)"""
    T = hdr.SOMEIPSDEntryType
    opts = tuple(OPT[o] for o in a.get("opts", ()))
    if a["ty"] == "offer" and "tag" in a:
        return hdr.SOMEIPSDEntry(sd_type=T.OfferService, service_id=0x7000, instance_id=a["tag"], major_version=1,
                                 ttl=a["ttl"], minver_or_counter=0, options_1=opts)
    if a["ty"] == "find" and "ids" not in a:
        ids = FIND[a["svc"]]
        return hdr.SOMEIPSDEntry(sd_type=T.FindService, service_id=ids[0], instance_id=ids[1], major_version=ids[2],
                                 ttl=a["ttl"], minver_or_counter=ids[3], options_1=opts)
    if a["ty"] in ("offer", "find"):
        if "ids" in a:
            ids = [x for x in a["ids"]]
            for i, w in ((1, ANY16), (2, ANY8), (3, ANY32)):
                if ids[i] == -1:
                    ids[i] = w
        else:
            ids = SVC[a["svc"]]
        return hdr.SOMEIPSDEntry(sd_type=T.OfferService if a["ty"] == "offer" else T.FindService,
                                 service_id=ids[0], instance_id=ids[1], major_version=ids[2],
                                 ttl=a["ttl"], minver_or_counter=ids[3], options_1=opts)
    ids = a["ids"] if "ids" in a else SVC[a["svc"]][:3]
    eps = tuple(OPT[o] for o in a.get("eps", ()))
    return hdr.SOMEIPSDEntry(sd_type=T.Subscribe if a["ty"] == "sub" else T.SubscribeAck,
                             service_id=ids[0], instance_id=ids[1], major_version=ids[2], ttl=a["ttl"],
                             minver_or_counter=(a.get("ctr", 0) << 16) | a["eg"], options_1=eps, options_2=opts)


def build_sd(entries, rb, sid, uc=True):
    msg = hdr.SOMEIPSDHeader(flag_reboot=rb, flag_unicast=uc,
                             entries=tuple(conc_entry(a) for a in entries)).assign_option_indexes()
    return hdr.SOMEIPHeader(service_id=hdr.SD_SERVICE, method_id=hdr.SD_METHOD, client_id=0, session_id=sid,
                            interface_version=1, message_type=hdr.SOMEIPMessageType.NOTIFICATION,
                            payload=bytes(msg.build())).build()


def abs_sd(data):
    """bytes -> list of abstract tx messages [sid, rb, uc, es] (one per SOME/IP message in the datagram)"""
    out = []
    while data:
        h, data = hdr.SOMEIPHeader.parse(data)
        if h.service_id != hdr.SD_SERVICE or h.method_id != hdr.SD_METHOD:
            out.append({"sid": h.session_id, "nonsd": True, "rb": False, "uc": False, "es": []})
            continue
        s, rest = hdr.SOMEIPSDHeader.parse(h.payload)
        s = s.resolve_options()
        out.append({"sid": h.session_id, "rb": s.flag_reboot, "uc": s.flag_unicast,
                    "es": [abs_entry(e) for e in s.entries],
                    "hdr": [h.client_id, h.interface_version, int(h.message_type), int(h.return_code)]})
    return out


# ---------------------------------------------------------------- recording
class Recorder:
    def __init__(self, loop):
        self.loop = loop
        self.ev = []
        loop.idle_hook = self._idle
        loop.exc_hook = self._exc
        self._last_idle = None

    def _exc(self, context):
        from .vloop import InjectedSendError
        if isinstance(context.get("exception"), InjectedSendError):     # a failure the harness injected itself: not an observation
            return True
        if type(context.get("exception")).__name__ == "AppError":      # a scenario's own failing application callback
            self.emit(k="note", what="application callback raised")
            return True
        self.emit(k="exc", what=repr(context.get("exception") or context.get("message"))[:120])
        return True

    def now(self):
        return self.loop.time()

    def emit(self, **e):
        t = self.loop.time()
        it = int(t)
        e["t"] = it
        if it != t:
            e["fr"] = True
        self.ev.append(e)
        self._last_idle = None

    def _idle(self, now):
        if self._last_idle == now:
            return
        self.emit(k="idle")
        self._last_idle = now

    def on_send(self, data, addr):
        try:
            msgs = abs_sd(data)
        except Exception as exc:  # undecodable transmission
            self.emit(k="out", op="tx", dst=addr_name(addr), sid=0, rb=False, uc=False, es=[], bad=repr(exc)[:80])
            return
        for m in msgs:
            self.emit(k="out", op="tx", dst=addr_name(addr), **m)

    def flush_exceptions(self):
        for c in self.loop.exceptions:
            if type(c.get("exception")).__name__ == "AppError":      # a scenario's own failing application callback, reached through a loop callback
                self.emit(k="note", what="application callback raised")
                continue
            self.emit(k="exc", what=repr(c.get("exception") or c.get("message"))[:120])
        self.loop.exceptions.clear()


class ClientL(sd.ClientServiceListener):
    def __init__(self, rec, name):
        self.rec, self.name = rec, name

    def service_offered(self, service, source):
        self.rec.emit(k="out", op="offered", lst=self.name, svc=svc_name(service), src=addr_name(source))

    def service_stopped(self, service, source):
        self.rec.emit(k="out", op="stopped", lst=self.name, svc=svc_name(service), src=addr_name(source))


def abs_sub(s):
    eps = sorted(opt_name(o) for o in s.endpoints)
    k3 = None
    for k in SVC.values():
        if k[:3] == (s.service_id, s.instance_id, s.major_version):
            k3 = k
            break       # (the first entry of the table: s6 / s7 differ from s1 / s2 in the minor version only)
    return {"svc": RSVC.get(k3, "s?"), "eg": s.id, "ctr": s.counter, "eps": eps, "ttl": s.ttl}


class AppError(Exception):
    """raised on purpose by an application callback of a scenario (a listener that fails): it reaches the caller of the library --
    logged as a note, not as a failure of the library"""


class ServerL(sd.ServerServiceListener):
    """decide(sub_abs) -> bool tells whether to accept"""

    def __init__(self, rec, name, decide=None):
        self.rec, self.name, self.decide = rec, name, decide

    def client_subscribed(self, subscription, source):
        a = abs_sub(subscription)
        ok = True if self.decide is None else bool(self.decide(a, addr_name(source)))
        self.rec.emit(k="out", op="subscribed", inst=self.name, sub=a, src=addr_name(source), acc=ok)
        if not ok:
            raise sd.NakSubscription

    on_unsubscribed = None      # optional hook: an application that reacts to a lost client from inside the callback

    def client_unsubscribed(self, subscription, source):
        self.rec.emit(k="out", op="unsubscribed", inst=self.name, sub=abs_sub(subscription), src=addr_name(source))
        if self.on_unsubscribed:
            hook, self.on_unsubscribed = self.on_unsubscribed, None
            hook()


class RandStub:
    """replacement for random.uniform inside someip.sd: returns prescribed values, logs requests"""

    def __init__(self, rec, values=None, default="lo"):
        self.rec, self.values, self.default = rec, list(values or []), default

    def uniform(self, lo, hi):
        if self.values:
            v = self.values.pop(0)
        else:
            v = lo if self.default == "lo" else hi
        v = min(max(v, lo), hi)
        self.rec.emit(k="rand", lo=_num(lo), hi=_num(hi), val=_num(v))
        return v

    def __getattr__(self, name):
        return getattr(_random, name)


def _num(x):
    return int(x) if int(x) == x else x


def timings(**kw):
    base = dict(INITIAL_DELAY_MIN=0, INITIAL_DELAY_MAX=0, REQUEST_RESPONSE_DELAY_MIN=0,
                REQUEST_RESPONSE_DELAY_MAX=0, REPETITIONS_MAX=0, REPETITIONS_BASE_DELAY=1,
                CYCLIC_OFFER_DELAY=4, FIND_TTL=3, ANNOUNCE_TTL=12, SUBSCRIBE_TTL=12,
                SUBSCRIBE_REFRESH_INTERVAL=4, SEND_COLLECTION_TIMEOUT=0)
    base.update(kw)
    return sd.Timings(**base)


class Stack:
    """one ServiceDiscoveryProtocol on its own VLoop with fake transport and recorder"""

    def __init__(self, tim=None, sockname=("192.0.2.100", 30490), rand=None, loop=None, late_timings=False):
        self.loop = loop or new_loop()
        self.rec = Recorder(self.loop)
        if late_timings and tim is not None:
            # the way users of create_endpoints() configure the stack: the protocol object exists already (library defaults),
            # the application then assigns the fields of prot.timings one by one, before anything is started
            self.prot = sd.ServiceDiscoveryProtocol(MC)
            import dataclasses
            for f in dataclasses.fields(tim):
                setattr(self.prot.timings, f.name, getattr(tim, f.name))
        else:
            self.prot = sd.ServiceDiscoveryProtocol(MC, timings=tim or timings())
        self.prot.transport = FakeTransport(self.rec.on_send, sockname)
        for comp, obj in (("disc", self.prot.discovery), ("sub", self.prot.subscriber), ("ann", self.prot.announcer)):
            def wrapper(exc, comp=comp, orig=obj.connection_lost):
                self.rec.emit(k="out", op="cl_applied", comp=comp)
                return orig(exc)
            obj.connection_lost = wrapper
        self.harness_errors = []
        self.rand = RandStub(self.rec, rand)
        sd.random = self.rand  # module attribute used by sd.random.uniform

    def rx(self, ev):
        """deliver an abstract rx input now (called from an injected I/O callback)"""
        try:
            data = build_sd(ev["es"], ev["rb"], ev["sid"], ev.get("uc", True))
        except Exception as exc:      # the harness could not even build the datagram: a machinery failure
            self.harness_errors.append("cannot build %r: %r" % (ev, exc))
            return
        self.rec.emit(k="in", **ev)
        try:
            self.prot.datagram_received(data, ADDR[ev["src"]], multicast=ev["mc"])
        except AppError:
            self.rec.emit(k="note", what="application callback raised")
        except Exception as exc:
            self.rec.emit(k="exc", what="datagram_received raised " + repr(exc)[:100])

    def call(self, ev, fn, *a, **kw):
        self.rec.emit(k="in", **ev)
        try:
            return fn(*a, **kw)
        except AppError:
            self.rec.emit(k="note", what="application callback raised")
        except Exception as exc:
            self.rec.emit(k="exc", what="%s raised %s" % (ev.get("op"), repr(exc)[:100]))

    def finish(self, t_end):
        self.loop.run_to(t_end)
        self.rec.flush_exceptions()
        missed = list(self.loop.missed)
        if self.harness_errors:
            from .framework import Machinery
            raise Machinery("; ".join(self.harness_errors[:3]))
        ev = list(self.rec.ev)          # (closing the loop finalises pending coroutines: their finally blocks still run)
        self.loop.shutdown()
        import random
        sd.random = random
        return ev, missed
