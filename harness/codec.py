"""Python side of the functional wire checks: canonical JSON forms of header.py values (the shapes
Wire.tla's decoders produce), outcome classification, generators and mutators."""
import ipaddress
import struct

from .sdenv import hdr


# ------------------------------------------------------------------ outcome classification
def classify(exc):
    if exc is None:
        return "ok"
    if isinstance(exc, hdr.ParseError):
        return "parse"
    if isinstance(exc, UnicodeDecodeError):
        return "unicode"
    if isinstance(exc, struct.error):
        return "struct"
    if isinstance(exc, (ValueError, OverflowError)):
        return "value"
    return "other:" + type(exc).__name__


def attempt(fn, *a):
    try:
        return fn(*a), "ok"
    except BaseException as exc:      # noqa: B902  (the point is to see every exception type)
        if isinstance(exc, (KeyboardInterrupt, SystemExit)):
            raise
        return None, classify(exc)


# ------------------------------------------------------------------ canonical JSON forms
def limbs(x):
    return [(x >> 16) & 0xFFFF, x & 0xFFFF]


def msg_j(h):
    return {"sid": h.service_id, "mid": h.method_id, "cid": h.client_id, "sess": h.session_id, "pv": h.protocol_version,
            "iv": h.interface_version, "mt": int(h.message_type), "rc": int(h.return_code), "payload": list(h.payload)}


def msg_obj(j):
    return hdr.SOMEIPHeader(service_id=j["sid"], method_id=j["mid"], client_id=j["cid"], session_id=j["sess"],
                            protocol_version=j["pv"], interface_version=j["iv"], message_type=hdr.SOMEIPMessageType(j["mt"]),
                            return_code=hdr.SOMEIPReturnCode(j["rc"]), payload=bytes(j["payload"]))


_IPK = {0x04: "ep4", 0x14: "mc4", 0x24: "sd4", 0x06: "ep6", 0x16: "mc6", 0x26: "sd6"}
_IPC = {"ep4": hdr.IPv4EndpointOption, "mc4": hdr.IPv4MulticastOption, "sd4": hdr.IPv4SDEndpointOption,
        "ep6": hdr.IPv6EndpointOption, "mc6": hdr.IPv6MulticastOption, "sd6": hdr.IPv6SDEndpointOption}


def opt_j(o):
    if isinstance(o, hdr.SOMEIPSDConfigOption):
        return {"k": "cfg", "items": [{"key": list(k.encode("latin1")), "has": v is not None,
                                       "val": list((v or "").encode("latin1"))} for k, v in o.configs]}
    if isinstance(o, hdr.SOMEIPSDLoadBalancingOption):
        return {"k": "lb", "prio": o.priority, "weight": o.weight}
    if isinstance(o, hdr.SOMEIPSDUnknownOption):
        return {"k": "unk", "type": o.type, "payload": list(o.payload)}
    return {"k": _IPK[o.type], "addr": list(o.address.packed), "proto": int(o.l4proto), "port": o.port}


def opt_obj(j):
    k = j["k"]
    if k == "cfg":
        return hdr.SOMEIPSDConfigOption(configs=tuple((bytes(i["key"]).decode("latin1"),
                                                       bytes(i["val"]).decode("latin1") if i["has"] else None) for i in j["items"]))
    if k == "lb":
        return hdr.SOMEIPSDLoadBalancingOption(priority=j["prio"], weight=j["weight"])
    if k == "unk":
        return hdr.SOMEIPSDUnknownOption(type=j["type"], payload=bytes(j["payload"]))
    addr = ipaddress.ip_address(bytes(j["addr"]))
    try:
        proto = hdr.L4Protocols(j["proto"])
    except ValueError:
        proto = j["proto"]
    return _IPC[k](address=addr, l4proto=proto, port=j["port"])


def entry_raw_j(e):
    return {"ty": int(e.sd_type), "oi1": e.option_index_1, "oi2": e.option_index_2, "no1": e.num_options_1, "no2": e.num_options_2,
            "sid": e.service_id, "iid": e.instance_id, "maj": e.major_version, "ttl": e.ttl, "v": limbs(e.minver_or_counter)}


def entry_res_j(e):
    return {"ty": int(e.sd_type), "sid": e.service_id, "iid": e.instance_id, "maj": e.major_version, "ttl": e.ttl,
            "v": limbs(e.minver_or_counter), "o1": [opt_j(o) for o in e.options_1], "o2": [opt_j(o) for o in e.options_2]}


def sd_raw_j(s):
    return {"rb": s.flag_reboot, "uc": s.flag_unicast, "fl": s.flags_unknown, "es": [entry_raw_j(e) for e in s.entries],
            "opts": [opt_j(o) for o in s.options]}


def sd_res_j(s, v32=False):
    j = {"rb": s.flag_reboot, "uc": s.flag_unicast, "fl": s.flags_unknown, "es": [entry_res_j(e) for e in s.entries]}
    if v32:
        for e, x in zip(j["es"], s.entries):
            e["v32"] = x.minver_or_counter
    return j


# ------------------------------------------------------------------ generators
MT = [0, 1, 2, 0x40, 0x41, 0x42, 0x80, 0x81, 0xC0, 0xC1]
ID16 = [0, 1, 0x00FF, 0x0100, 0x7FFF, 0x8000, 0xFFFE, 0xFFFF, 0xDEAD, 0xBEEF, 0x8100]      # boundaries + values the protocol gives a meaning
PLEN = [0, 0, 1, 2, 7, 8, 9, 15, 16, 17, 255, 256, 1000]
PLEN_BIG = [65527, 65528, 65529, 65535, 65536, 65537]


def rid(rng, bits=16):
    return rng.choice(ID16) if bits == 16 and rng.random() < 0.5 else rng.getrandbits(bits)


def well_known(rng):
    """messages the SOME/IP specification gives a special meaning (magic cookies of the TCP binding, an empty SD message) and near
    misses of them: for the codec and the datagram / stream framing they are messages like any other"""
    MT = hdr.SOMEIPMessageType
    base = rng.choice([
        dict(service_id=0xFFFF, method_id=0x0000, client_id=0xDEAD, session_id=0xBEEF, interface_version=1,
             message_type=MT.REQUEST_NO_RETURN, return_code=hdr.SOMEIPReturnCode.E_OK, payload=b""),      # magic cookie client -> server
        dict(service_id=0xFFFF, method_id=0x8000, client_id=0xDEAD, session_id=0xBEEF, interface_version=1,
             message_type=MT.NOTIFICATION, return_code=hdr.SOMEIPReturnCode.E_OK, payload=b""),           # magic cookie server -> client
        dict(service_id=0xFFFF, method_id=0x8100, client_id=0, session_id=1, interface_version=1,
             message_type=MT.NOTIFICATION, return_code=hdr.SOMEIPReturnCode.E_OK, payload=bytes([0xC0, 0, 0, 0, 0, 0, 0, 0, 0, 0, 0, 0])),
    ])
    if rng.random() < 0.4:            # a near miss: one field off
        k = rng.choice(["method_id", "client_id", "session_id", "interface_version", "payload"])
        base[k] = {"method_id": rng.choice([0x0001, 0x8001, 0x7FFF]), "client_id": 0xDEAE, "session_id": 0xBEEE,
                   "interface_version": 0, "payload": b"\x00"}[k]
    return hdr.SOMEIPHeader(**base)


def rand_msg(rng, big=False):
    if not big and rng.random() < 0.06:
        return well_known(rng)
    n = rng.choice(PLEN_BIG) if big else rng.choice(PLEN + [rng.randint(0, 300)])
    return hdr.SOMEIPHeader(service_id=rid(rng), method_id=rid(rng), client_id=rid(rng), session_id=rid(rng),
                            interface_version=rng.choice([0, 1, 0xFF, rng.getrandbits(8)]),
                            message_type=hdr.SOMEIPMessageType(rng.choice(MT)), return_code=hdr.SOMEIPReturnCode(rng.randint(0, 10)),
                            payload=rng.randbytes(n))


def rand_opt(rng):
    k = rng.randrange(9)
    port = rng.choice([0, 1, 30490, 0xFFFF, rng.getrandbits(16)])
    proto = rng.choice([hdr.L4Protocols.UDP, hdr.L4Protocols.TCP, 0, 1, 99, 255])
    a4 = ipaddress.IPv4Address(rng.choice([0, 0xFFFFFFFF, 0xC0000201, rng.getrandbits(32)]))
    a6 = ipaddress.IPv6Address(rng.choice([0, 1, (1 << 128) - 1, rng.getrandbits(128), rng.getrandbits(128),
                                           (0xFFFF << 32) | rng.getrandbits(32),       # v4-mapped  ::ffff:a.b.c.d
                                           rng.getrandbits(32),                        # v4-compatible  ::a.b.c.d
                                           (0xFE80 << 112) | rng.getrandbits(64), (0xFF02 << 112) | 1,
                                           (0x2002 << 112) | (rng.getrandbits(32) << 80), (0x64FF9B << 96) | rng.getrandbits(32)]))
    if k == 0:
        return hdr.IPv4EndpointOption(a4, proto, port)
    if k == 1:
        return hdr.IPv6EndpointOption(a6, proto, port)
    if k == 2:
        return hdr.IPv4MulticastOption(a4, proto, port)
    if k == 3:
        return hdr.IPv6MulticastOption(a6, proto, port)
    if k == 4:
        return hdr.IPv4SDEndpointOption(a4, proto, port) if rng.random() < 0.5 else hdr.IPv6SDEndpointOption(a6, proto, port)
    if k == 5:
        return hdr.SOMEIPSDLoadBalancingOption(rid(rng), rid(rng))
    if k in (6, 7):
        items = []
        for _ in range(rng.choice([0, 1, 1, 2, 3])):
            key = rng.choice(["a", "key", "x1", "K" * rng.choice([1, 100, 200]), "Key", "KEY", "A", "protocol", "Protocol"])
            val = rng.choice([None, None, "", "v", "a=b", "=", "v" * 50])
            if len(key) + (len(val) + 1 if val is not None else 0) <= 255:
                items.append((key, val))
        return hdr.SOMEIPSDConfigOption(tuple(items))
    return hdr.SOMEIPSDUnknownOption(rng.choice([0, 3, 5, 0x07, 0x77, 0xFE, 0xFF]), rng.randbytes(rng.choice([0, 1, 2, 5, 30])))


def rand_entry_fields(rng):
    ty = rng.choice(list(hdr.SOMEIPSDEntryType))
    if ty in (hdr.SOMEIPSDEntryType.FindService, hdr.SOMEIPSDEntryType.OfferService):
        val = rng.choice([0, 1, 0xFFFFFFFF, 0xFFFFFFFE, 0x80000000, rng.getrandbits(32)])
    else:
        val = (rng.randrange(16) << 16) | rng.choice([0, 1, 0xFFFF, rng.getrandbits(16)])
    return dict(sd_type=ty, service_id=rid(rng), instance_id=rid(rng), major_version=rng.choice([0, 1, 0xFE, 0xFF, rng.getrandbits(8)]),
                ttl=rng.choice([0, 1, 3, 0xFFFFFE, 0xFFFFFF, rng.getrandbits(24)]), minver_or_counter=val)


def rand_sd(rng, max_entries=4, pool_size=None, run_max=4):
    """an SD message with shared / repeated / overlapping option runs"""
    pool = [rand_opt(rng) for _ in range(pool_size or rng.randint(1, 6))]
    es = []
    for _ in range(rng.randint(0, max_entries)):
        def run():
            mode = rng.random()
            n = rng.randint(0, run_max)
            if mode < 0.4:                       # a contiguous slice of the pool: shares / overlaps with other runs
                i = rng.randrange(len(pool))
                return tuple(pool[i:i + n])
            if mode < 0.6 and es:               # exactly the run of an earlier entry, or its tail
                o = rng.choice(es).options_1
                return tuple(o[rng.randint(0, max(0, len(o) - 1)):]) if o else ()
            return tuple(rng.choices(pool, k=n))
        es.append(hdr.SOMEIPSDEntry(options_1=run(), options_2=run(), **rand_entry_fields(rng)))
    return hdr.SOMEIPSDHeader(entries=tuple(es), flag_reboot=rng.random() < 0.5, flag_unicast=rng.random() < 0.8,
                              flags_unknown=rng.choice([0, 0, 1, 0x20, 0x3F]))


# ------------------------------------------------------------------ mutators (C03 / C20 corpus)
def mutate(rng, b):
    b = bytearray(b)
    k = rng.randrange(8)
    if not b:
        return bytes(rng.randbytes(rng.randint(0, 20)))
    if k == 0:
        for _ in range(rng.randint(1, 3)):
            b[rng.randrange(len(b))] ^= 1 << rng.randrange(8)
    elif k == 1:
        for _ in range(rng.randint(1, 3)):
            b[rng.randrange(len(b))] = rng.choice([0, 1, 0x7F, 0x80, 0xFF, rng.getrandbits(8)])
    elif k == 2:
        del b[rng.randrange(len(b)):]
    elif k == 3:
        i = rng.randrange(len(b) + 1)
        b[i:i] = rng.randbytes(rng.randint(1, 8))
    elif k == 4:
        i = rng.randrange(len(b))
        j = min(len(b), i + rng.randint(1, 24))
        b[j:j] = b[i:j]
    elif k == 5:                                   # a length / count / index field: 0, 1, max, +-1
        i = rng.randrange(len(b))
        b[i] = rng.choice([0, 1, 0xFF, (b[i] + 1) & 0xFF, (b[i] - 1) & 0xFF])
    elif k == 6:
        i = rng.randrange(len(b))
        del b[i:i + rng.randint(1, 4)]
    else:                                          # non-ASCII into (what may be) configuration text
        for _ in range(rng.randint(1, 2)):
            b[rng.randrange(len(b))] |= 0x80
    return bytes(b)
