"""Mode 4: conformance of recorded traces against the system specification (SDTrace.tla etc.)."""
import json
import os
import re
import shutil
import concurrent.futures as cf

from . import tlc

_C = re.compile(r'<<"CONF", (\d+), "(\w+)", (\d+), (\d+)>>')


def _root(trace_module, consts):
    defs = "\n".join("TC_%s == %s" % (k, v) for k, v in consts.items())
    mod = "---- MODULE TR ----\nEXTENDS %s\n%s\n====\n" % (trace_module, defs)
    cfg = "SPECIFICATION TSpec\nCONSTANTS\n" + "\n".join("  %s <- TC_%s" % (k, k) for k in consts) + \
          "\n  Inputs = {}\n  MaxEv = 0\n  MaxIdle = 0\n  MaxPerPoll = 0\n" \
          "CONSTRAINT Progress\nPOSTCONDITION Done\nCHECK_DEADLOCK FALSE\n"
    return mod, cfg


def _chunk(args):
    trace_module, consts, path, n, timeout = args
    mod, cfg = _root(trace_module, consts)
    res = tlc.run("TR", cfg, workers=1, timeout=timeout, env={"TRACE_FILE": path},
                  extra_modules={"TR.tla": mod}, dfs=True)
    out = {}
    for p in res.prints:
        m = _C.match(p.replace("\n", " "))
        if m:
            out[int(m.group(1))] = (m.group(2) == "ACCEPT", int(m.group(3)), int(m.group(4)))
    if len(out) != n:
        raise tlc.TLCError("conformance %s: %d verdicts for %d traces\n%s" % (trace_module, len(out), n, res.stdout[-3000:]))
    return out, res.distinct


def run(trace_module, consts, traces, jobs=8, timeout=900):
    """traces: list of {"ev": [...]} (raw events with t, no adv). Returns list of (accepted, reached, length), states."""
    if not traces:
        return [], 0
    d = tlc.scratch("conf")
    try:
        jobs = max(1, min(jobs, (len(traces) + 24) // 25))
        parts = [[] for _ in range(jobs)]
        for i, t in enumerate(traces):
            parts[i % jobs].append((i, t))
        work = []
        for j, part in enumerate(parts):
            path = os.path.join(d, "tr%d.ndjson" % j)
            with open(path, "w") as fh:
                for _, t in part:
                    fh.write(json.dumps({"ev": [e for e in t["ev"] if e.get("k") != "adv"]}) + "\n")
            work.append((trace_module, consts, path, len(part), timeout))
        out = [None] * len(traces)
        states = 0
        with cf.ThreadPoolExecutor(max_workers=jobs) as ex:
            for part, (verdicts, distinct) in zip(parts, ex.map(_chunk, work)):
                states += distinct
                for k, (i, _) in enumerate(part):
                    out[i] = verdicts[k + 1]
        return out, states
    finally:
        shutil.rmtree(d, ignore_errors=True)
