"""Mode 4: conformance of recorded traces against the system specification (SDTrace.tla etc.)."""
import json
import os
import re
import shutil
import concurrent.futures as cf

from . import tlc

_C = re.compile(r'<<\s*"CONF",\s*(\d+),\s*"(\w+)",\s*(\d+),\s*(\d+)\s*>>')


def _root(trace_module, consts):
    defs = "\n".join("TC_%s == %s" % (k, v) for k, v in consts.items())
    mod = "---- MODULE TR ----\nEXTENDS %s, SDConfigs\n%s\n====\n" % (trace_module, defs)   # (named configurations may be used)
    cfg = "SPECIFICATION TSpec\nCONSTANTS\n" + "\n".join("  %s <- TC_%s" % (k, k) for k in consts) + \
          "\n  Inputs = {}\n  MaxEv = 0\n  MaxIdle = 0\n  MaxPerPoll = 0\n" \
          "CONSTRAINT Progress\nPOSTCONDITION Done\nCHECK_DEADLOCK FALSE\n"
    return mod, cfg


def _chunk(args):
    trace_module, consts, path, n, timeout = args
    mod, cfg = _root(trace_module, consts)
    res = tlc.run("TR", cfg, workers=1, timeout=timeout, env={"TRACE_FILE": path},
                  extra_modules={"TR.tla": mod}, dfs=True)
    out = {}
    for p in res.prints:
        m = _C.match(p.replace("\n", " "))
        if m:
            out[int(m.group(1))] = (m.group(2) == "ACCEPT", int(m.group(3)), int(m.group(4)))
    if len(out) != n:
        if res.timeout:      # the search for an explaining behaviour ran out of time: these traces stay unvalidated (a drift note)
            return {i: (False, -1, 0) for i in range(1, n + 1)}, res.distinct
        raise tlc.TLCError("conformance %s: %d verdicts for %d traces\n%s" % (trace_module, len(out), n, res.stdout[:2500] + "\n...\n" + res.stdout[-1500:]))
    return out, res.distinct


def run(trace_module, consts, traces, jobs=8, timeout=400):
    """traces: list of {"ev": [...]} (raw events with t, no adv). Returns list of (accepted, reached, length), states."""
    if not traces:
        return [], 0
    d = tlc.scratch("conf")
    try:
        jobs = max(1, min(jobs, (len(traces) + 24) // 25))
        parts = [[] for _ in range(jobs)]
        for i, t in enumerate(traces):
            parts[i % jobs].append((i, t))
        work = []
        for j, part in enumerate(parts):
            path = os.path.join(d, "tr%d.ndjson" % j)
            with open(path, "w") as fh:
                for _, t in part:
                    fh.write(json.dumps({"ev": [e for e in t["ev"] if e.get("k") != "adv"]}) + "\n")
            work.append((trace_module, consts, path, len(part), timeout))
        out = [None] * len(traces)
        states = 0
        with cf.ThreadPoolExecutor(max_workers=jobs) as ex:
            for part, (verdicts, distinct) in zip(parts, ex.map(_chunk, work)):
                states += distinct
                for k, (i, _) in enumerate(part):
                    out[i] = verdicts[k + 1]
        return out, states
    finally:
        shutil.rmtree(d, ignore_errors=True)


# ------------------------------------------------------------------ two-stack traces against SD2.tla
def ticks_of(ev):
    """net2 event list -> per-instant records {t, faults, outs} (instants at which nothing observable happened are dropped)"""
    ticks = {}
    for e in ev:
        t = e.get("t", 0)
        rec = ticks.setdefault(t, {"t": t, "faults": [], "outs": []})
        if e.get("k") == "in" and e.get("op") == "fault":
            if e["kind"].endswith("_applied"):
                rec["outs"].append(["fault", e["kind"]])
            else:
                f = {"kind": e["kind"], "node": e.get("node", "")}
                if "d" in e:
                    f["d"] = e["d"]
                rec["faults"].append(f)
        elif e.get("k") == "out" and e.get("op") == "wire":
            rec["outs"].append(["wire", e["node"], bool(e["mc"]), [[x[0], x[1]] for x in e["es"]]])
        elif e.get("k") == "out":
            rec["outs"].append([e["op"], e["node"]])
        elif e.get("k") == "exc":
            rec["outs"].append(["exc"])
    return [ticks[t] for t in sorted(ticks) if ticks[t]["faults"] or ticks[t]["outs"]]


def _chunk2(args):
    consts, path, n, timeout = args
    defs = "\n".join("TC_%s == %s" % (k, v) for k, v in consts.items())
    mod = "---- MODULE TR2 ----\nEXTENDS SD2Trace, SD2Configs\n%s\n====\n" % defs
    cfg = "SPECIFICATION TSpec\nCONSTANTS\n" + "\n".join("  %s <- TC_%s" % (k, k) for k in consts) + \
          "\nCONSTRAINT Progress\nPOSTCONDITION Done\nCHECK_DEADLOCK FALSE\n"
    res = tlc.run("TR2", cfg, workers=1, timeout=timeout, env={"TRACE_FILE": path}, extra_modules={"TR2.tla": mod}, dfs=True)
    out = {}
    for p in res.prints:
        m = _C.match(p.replace("\n", " "))
        if m:
            out[int(m.group(1))] = (m.group(2) == "ACCEPT", int(m.group(3)), int(m.group(4)))
    if len(out) != n:
        raise tlc.TLCError("conformance SD2Trace: %d verdicts for %d traces\n%s" % (len(out), n, res.stdout[:2500] + "\n...\n" + res.stdout[-1500:]))
    return out, res.distinct


def run2(consts, traces, jobs=8, timeout=1500):
    """traces: list of {"ticks": [...]}; consts: TLA+ expressions for Match, Cfg, Sw.  -> [(accepted, reached, length)], states"""
    if not traces:
        return [], 0
    consts = dict(consts)
    consts.setdefault("Kinds", '{"crash_srv", "crash_wat", "stop_srv", "stop_wat", "loss", "drop", "dup", "delay"}')
    consts.setdefault("MaxFaults", "1000")
    consts.setdefault("FaultWindow", "1000000")
    consts.setdefault("Horizon", "1000000")
    consts.setdefault("Delays", "0..100")
    consts.setdefault("Sched", '"any"')
    d = tlc.scratch("conf2")
    try:
        jobs = max(1, min(jobs, (len(traces) + 9) // 10))
        parts = [[] for _ in range(jobs)]
        for i, t in enumerate(traces):
            parts[i % jobs].append((i, t))
        work = []
        for j, part in enumerate(parts):
            path = os.path.join(d, "tr%d.ndjson" % j)
            with open(path, "w") as fh:
                for _, t in part:
                    fh.write(json.dumps({"ticks": t["ticks"]}) + "\n")
            work.append((consts, path, len(part), timeout))
        out = [None] * len(traces)
        states = 0
        with cf.ThreadPoolExecutor(max_workers=jobs) as ex:
            for part, (verdicts, distinct) in zip(parts, ex.map(_chunk2, work)):
                states += distinct
                for k, (i, _) in enumerate(part):
                    out[i] = verdicts[k + 1]
        return out, states
    finally:
        shutil.rmtree(d, ignore_errors=True)
