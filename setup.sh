#!/bin/sh
# offline setup: syntax/semantic check of every TLA+ module, smoke run of the check driver
cd "$(dirname "$0")" || exit 2
mkdir -p out evidence
fail=0
for f in spec/*.tla; do
  m=$(basename "$f" .tla)
  case "$m" in SDTrace|*Trace) continue;; esac   # trace specs need IOEnv at evaluation time only; SANY is fine but slow
  out=$(cd spec && java -cp /opt/veriftools/tla/tla2tools.jar:/opt/veriftools/tla/CommunityModules-deps.jar tla2sany.SANY "$m.tla" 2>&1)
  if echo "$out" | grep -q -e "Semantic errors" -e "Parse Error" -e "Fatal errors" -e "Could not"; then
    echo "SANY failed: $m"; echo "$out" | tail -20; fail=1
  fi
done
/venv/bin/python -c "import sys; sys.path.insert(0,'.'); import harness.sdenv" || fail=1
exit $fail
