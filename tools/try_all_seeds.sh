#!/bin/sh
# apply every seeded change in turn and run the check of its property (plus extra ones given in seeded/<id>/also)
cd /verif
: > seeded/RESULTS.txt
for d in seeded/*/; do
  id=$(basename $d); prop=${id%%-*}
  also=$(cat $d/also 2>/dev/null)
  [ -f MANIFEST.json ] && grep -q "\"property_id\": \"$prop\"" MANIFEST.json || { echo "seed=$id: no check for $prop yet"; continue; }
  tools/try_seed.sh $id $prop $also | tee -a seeded/RESULTS.txt
done
python3 tools/seed_table.py
