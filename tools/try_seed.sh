#!/bin/sh
# usage: try_seed.sh <seed id> <property>...   apply seeded/<id>/patch.diff to /repo, run the quick checks, undo
id=$1; shift
cd /repo || exit 2
if ! git diff --quiet; then echo "/repo has uncommitted changes"; exit 2; fi
if ! git apply --check /verif/seeded/$id/patch.diff 2>/dev/null; then
  if ! git apply --3way /verif/seeded/$id/patch.diff >/dev/null 2>&1; then echo "$id: patch does not apply"; git reset -q --hard HEAD; exit 3; fi
else git apply /verif/seeded/$id/patch.diff; fi
for p in "$@"; do
  out=$(cd /verif && ./check $p --tier ${TIER:-quick} 2>&1); rc=$?
  echo "seed=$id check=$p rc=$rc $(echo "$out" | grep -c '^VIOLATION') violations; $(echo "$out" | grep -m1 'diag:' | cut -c1-200)"
done
git reset -q --hard HEAD
