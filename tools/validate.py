#!/usr/bin/env python3
"""validate MANIFEST.json and every evidence file against the given schemas (run with python3-vt: needs jsonschema)"""
import glob
import json
import sys

import jsonschema

bad = 0
m = json.load(open("/verif/MANIFEST.json"))
jsonschema.validate(m, json.load(open("/root/.vp/MANIFEST.schema.json")))
es = json.load(open("/root/.vp/EVIDENCE.schema.json"))
for c in m["checks"]:
    f = c["evidence_file"] if c["evidence_file"].startswith("/") else "/verif/" + c["evidence_file"]
    try:
        e = json.load(open(f))
        jsonschema.validate(e, es)
        lvl = c["level_claimed"]["category"] if isinstance(c["level_claimed"], dict) else c["level_claimed"]
        if e["level"] != lvl:
            print("LEVEL MISMATCH", c["property_id"], e["level"], lvl)
            bad += 1
    except Exception as exc:
        print("INVALID", f, str(exc)[:300])
        bad += 1
print("manifest ok; %d evidence files checked, %d bad" % (len(m["checks"]), bad))
sys.exit(1 if bad else 0)
