#!/bin/sh
# usage: verify_seed.sh <worktree dir> <seed id>   -- confirm a seeded change: tests pass, demo fails with / passes without
wt=$1; id=$2
cd "$wt" || exit 2
export PYTHONPATH=$wt/src PYTHONDONTWRITEBYTECODE=1
git diff -- src > /tmp/seed_$id.diff
[ -s /tmp/seed_$id.diff ] || { echo "$id: empty diff"; exit 1; }
timeout 120 /venv/bin/python demo.py > /tmp/seed_$id.demo_with 2>&1; with=$?
git checkout -q -- src
timeout 120 /venv/bin/python demo.py > /tmp/seed_$id.demo_without 2>&1; without=$?
git apply /tmp/seed_$id.diff
/venv/bin/python -m pytest -q -p no:cacheprovider --timeout=900 tests > /tmp/seed_$id.tests 2>&1; t=$?
echo "$id: demo_with=$with demo_without=$without tests_rc=$t $(tail -1 /tmp/seed_$id.tests)"
if [ $with -ne 0 ] && [ $without -eq 0 ] && [ $t -eq 0 ]; then
  mkdir -p /verif/seeded/$id
  cp /tmp/seed_$id.diff /verif/seeded/$id/patch.diff
  cp demo.py /verif/seeded/$id/demo.py
  cp meta.json /verif/seeded/$id/meta.agent.json 2>/dev/null
  echo "$id: CONFIRMED"
else
  echo "$id: NOT CONFIRMED"
fi
