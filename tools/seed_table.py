#!/usr/bin/env python3
"""seeded/RESULTS.txt (written by tools/try_all_seeds.sh) + seeded/<id>/meta.agent.json  ->
seeded/<id>/meta.json and seeded/README.md (which check catches which seeded change, and by which clause)."""
import json
import os
import re
import sys

ROOT = os.path.join(os.path.dirname(os.path.abspath(__file__)), "..", "seeded")
LINE = re.compile(r"seed=(\S+) check=(\S+) rc=(\d+) (\d+) violations;\s*(?:diag: (.*))?")


def main():
    res = {}
    for ln in open(os.path.join(ROOT, "RESULTS.txt")):
        m = LINE.match(ln.strip())
        if not m:
            continue
        sid, chk, rc, nv, diag = m.groups()
        clause = ""
        if diag:
            c = re.search(r'"clause": "([^"]*)"', diag)
            s = re.search(r'"source": "([^"]*)"', diag)
            clause = (c.group(1) if c else "") + (" [" + s.group(1) + "]" if s else "")
        res.setdefault(sid, []).append({"check": chk, "rc": int(rc), "violations": int(nv), "first_clause": clause})
    rows = []
    for sid in sorted(os.listdir(ROOT)):
        d = os.path.join(ROOT, sid)
        if not os.path.isfile(os.path.join(d, "patch.diff")):
            continue
        agent = {}
        if os.path.exists(os.path.join(d, "meta.agent.json")):
            try:
                agent = json.load(open(os.path.join(d, "meta.agent.json")))
            except ValueError:
                agent = {}
        prop = sid.split("-")[0]
        runs = res.get(sid, [])
        caught = [r for r in runs if r["rc"] == 1 and r["violations"] > 0]
        meta = {
            "seed": sid,
            "property": prop,
            "what_the_change_does": agent.get("summary", ""),
            "needs_to_manifest": agent.get("needs", ""),
            "files": agent.get("files", []),
            "author": "fresh sub-agent given only the property text and a scratch worktree of /repo",
            "rebased": os.path.exists(os.path.join(d, "patch.orig.diff")),
            "confirmed_by": ["tools/verify_seed.sh <worktree> %s: existing test suite passes with the change, demo.py exits non-zero "
                             "with it and 0 without it" % sid] + list(agent.get("ran", [])),
            "checks_run": ["git -C /repo apply seeded/%s/patch.diff; ./check %s --tier quick; git -C /repo checkout -- .  "
                           "-> rc=%d, %d VIOLATION line(s), first clause: %s" % (sid, r["check"], r["rc"], r["violations"], r["first_clause"])
                           for r in runs],
            "caught_by": [{"check": r["check"], "clause": r["first_clause"]} for r in caught],
        }
        json.dump(meta, open(os.path.join(d, "meta.json"), "w"), indent=1)
        rows.append(meta)
    with open(os.path.join(ROOT, "README.md"), "w") as f:
        f.write("# Seeded changes\n\nEach directory holds one change to afflux/pysomeip that breaks one property while the code still "
                "imports and the repository's 123 tests still pass: `patch.diff` (against the current /repo HEAD; `patch.orig.diff` is the "
                "author's diff where later `fix:` commits made a rebase necessary), `demo.py` (exits 0 on the unchanged tree, non-zero "
                "with the change), `meta.agent.json` (the author's own description) and `meta.json` (property, what it needs to "
                "manifest, what was run).  None of them is ever committed to /repo.  `tools/try_all_seeds.sh` applies each in turn, runs "
                "the quick check of its property and undoes it; this table is generated from its output by `tools/seed_table.py`.\n\n")
        f.write("| seed | property | caught by (first clause reported) | needs |\n|---|---|---|---|\n")
        for m in rows:
            c = "; ".join("%s: `%s`" % (x["check"], x["clause"]) for x in m["caught_by"]) or "**missed**"
            needs = m["needs_to_manifest"].replace("|", "/").replace("\n", " ")
            f.write("| %s | %s | %s | %s |\n" % (m["seed"], m["property"], c, needs[:260] + ("…" if len(needs) > 260 else "")))
        n = sum(1 for m in rows if m["caught_by"])
        f.write("\n%d of %d seeded changes are caught by the quick tier of the check of their property.\n" % (n, len(rows)))
    print("%d seeds, %d caught" % (len(rows), sum(1 for m in rows if m["caught_by"])))
    return 0


if __name__ == "__main__":
    sys.exit(main())
