#!/bin/sh
# run every claimed check (quick tier by default) 4 at a time; print one line per check
cd "$(dirname "$0")/.." || exit 2
tier=${1:-quick}
props=$(python3 -c "import json; print(' '.join(c['property_id'] for c in json.load(open('MANIFEST.json'))['checks']))")
echo $props | tr ' ' '\n' | xargs -P 4 -I{} sh -c "./check {} --tier $tier > out/all_{}.log 2>&1; echo {} rc=\$? \$(tail -1 out/all_{}.log)"
