#!/usr/bin/env python3
"""Regenerates /verif/MANIFEST.json from the table below (claimed checks) + properties.jsonl."""
import json, os
ROOT = os.path.dirname(os.path.dirname(os.path.abspath(__file__)))
props = [json.loads(l) for l in open(os.path.join(ROOT, "properties.jsonl"))]

TECH = "TLA+ system spec + TLC exhaustive check of a TLA+ property monitor; monitor pass and trace validation of real executions in TLC"
TRUST = ("bounded: small constants in TLC; seeded random / enumerated histories on the real code; trusts CPython asyncio loop "
         "semantics (the harness reuses BaseEventLoop._run_once), TLC, and the library codec for building test datagrams")
FT = ("TLA+ functional specification (Wire.tla) with laws model-checked by TLC on an enumerated boundary domain; "
      "recorded calls of the real codec evaluated against it in TLC")
FN = ("TLC is an oracle evaluating a byte-level functional spec, not an explorer of the byte space: inputs beyond the enumerated "
      "boundary domain are seeded-random / mutation-based; 32-bit fields as 16-bit limbs")
CLAIMS = {
 "C05": ("model_checking",
         "TLC proves the TLA+ monitor Mon_C05 can never fire on the discovery part of spec/SD.tla (one action per event-loop "
         "callback) for every schedule within the configuration bounds and catches each as-shipped deviation switch; the same "
         "monitor, evaluated by TLC, judges traces recorded from the real stack on a deterministic virtual-time loop, and "
         "SDTrace.tla validates those traces as behaviours of the specification", "DESIGN.md §7 C05", TECH, TRUST),
 "C09": ("model_checking",
         "TLC proves Mon_C09 (exact expiry instant, exactly once, refresh replaces the deadline, infinite TTL never expires, no "
         "stale timer) on the TimedStore part of spec/SD.tla for all operation sequences / tie orders within bounds incl. jumps "
         "to far deadlines, and catches three spec mutants; the monitor judges the real TimedStore driven directly (I/O and "
         "timer phase, past 0xFFFFFF s) and discovery-level executions; traces are validated against SDTrace.tla",
         "DESIGN.md §7 C09", TECH, TRUST),
 "C07": ("model_checking",
         "TLC closes the reachable (session memory x monitor) space of the receive path of spec/SD.tla over senders x channels "
         "x flag x boundary session ids: the model signals a reboot exactly when Mon_C07 (the rule of the statement, previous "
         "message of the same key only) expects it, each detection reaching the three components once; the monitor judges the "
         "real check_received (every ordered pair of boundary symbols, random 16-bit walks) and the real receive path with the "
         "components wrapped; traces validated against SDTrace.tla", "DESIGN.md §7 C07", TECH, TRUST),
 "C08": ("model_checking",
         "TLC walks the complete 2 x 65535-state cycle of one destination and all interleavings of three destinations with a "
         "small MaxId and empty sends on spec/SD.tla x Mon_C08 (ids 1..MaxId, never 0, flag until the first wrap, empty send "
         "is a no-op), catching two spec mutants; the monitor judges real send_sd traffic crossing each destination's wrap at "
         "different moments and real SimpleEventgroup notification rounds", "DESIGN.md §7 C08", TECH, TRUST),
 "C06": ("model_checking",
         "TLC checks the subscription store of spec/SD.tla against Mon_C06 (alternation per subscription identity, ghost "
         "liveness computed from the inputs: accept -> TTL / StopSubscribe / detected reboot / stop, reboot applied before "
         "the entries of the same message, rejected subscriptions never recorded) for all schedules within bounds and catches "
         "the as-shipped deferred reboot fan-out; the monitor judges real ServiceInstance histories; SDTrace.tla validates them",
         "DESIGN.md §7 C06", TECH, TRUST),
 "C10": ("model_checking",
         "TLC checks the offer task of spec/SD.tla (exact asyncio hop structure: create_task, sleep, cancel at every point) "
         "against the timeline acceptor Mon_C10 for every stop / restart / find position in four timing configurations and "
         "catches the as-shipped deviations D4, D5, D6; the monitor judges real announcer histories in six timing "
         "configurations plus a probe of the stop-twice / SimpleService helper calls; traces validated against SDTrace.tla",
         "DESIGN.md §7 C10", TECH, TRUST),
 "C11": ("model_checking",
         "TLC checks handle_subscribe of spec/SD.tla against Mon_C11 (exactly one Ack/Nack per unicast Subscribe, echoing ids, "
         "TTL by an independent statement of matching / running state / listener decision; nothing for multicast or "
         "StopSubscribe) and catches a spec mutant; the monitor judges real histories over three instances incl. wildcard ids",
         "DESIGN.md §7 C11", TECH, TRUST),
 "C12": ("model_checking",
         "TLC checks FindService handling of spec/SD.tla against Mon_C12 (must / may / must-not answer by lifecycle instant, "
         "unicast to the requester only, delay window by channel) for finds at every instant and catches the as-shipped "
         "stopped-instance answer; the monitor judges real histories over three instances x nine filters (every wildcard "
         "combination) x six timing configurations", "DESIGN.md §7 C12", TECH, TRUST),
 "C15": ("model_checking",
         "TLC checks SendCollector / queue_send / send_sd of spec/SD.tla against Mon_C15 (exactly once, per-destination "
         "order, deadline = collection timeout, no mixing of destinations, own message when the timeout is zero) for all "
         "schedules incl. requests at the closing instant of a window and during stop, and catches a spec mutant; the monitor "
         "judges real queue_send histories with bursts up to 40 entries", "DESIGN.md §7 C15", TECH, TRUST),
 "C13": ("model_checking",
         "TLC checks the find task of spec/SD.tla (initial wait, 1 + repetitions rounds at doubling delays, early end, shared "
         "discovery store) against Mon_C13 (only watched and not-yet-found filters, ids / TTL / multicast, round instants, "
         "bound on the number of rounds, silence once everything is found; both readings accepted for offers arriving in the "
         "tick of a round) and catches a spec mutant; the monitor judges real histories with 1-4 wildcard filters in five "
         "timing configurations; traces validated against SDTrace.tla", "DESIGN.md §7 C13", TECH, TRUST),
 "C14": ("model_checking",
         "TLC checks ServiceSubscriber of spec/SD.tla (request list, alive flag, deferred sends, refresh task) against "
         "Mon_C14, which plays the server: entries applied per destination in transmission order must leave exactly the "
         "requested set while running and nothing after stop, with correct TTL / endpoint option / destination and refresh "
         "gaps; a spec mutant (StopSubscribe overtaking a queued Subscribe) is caught; the monitor judges real histories over "
         "IPv4/IPv6 x UDP/TCP eventgroups and three servers, including stop-subscribes that the application queues with "
         "call_soon among the library's own callbacks (also explored by TLC)", "DESIGN.md §7 C14", TECH, TRUST),
 "C16": ("model_checking",
         "TLC walks the complete decision table of spec/Service.tla (5280 rows, one state per row) and checks the laws of the "
         "statement on every row (at most one reply, multicast never answered, fire-and-forget never gets a RESPONSE, first "
         "failing check decides); every row is instantiated on a real SimpleService through message_received and "
         "datagram_received and TLC compares each recorded reply (destination, echoed ids, type, code, payload) with "
         "Service!Decision", "DESIGN.md §7 C16",
         "TLA+ functional specification (decision table) checked exhaustively by TLC; recorded calls of the real code evaluated against it in TLC",
         "exhaustive over the table; ids / payloads per row are boundary + seeded random; replies decoded with SOMEIPHeader.parse (C01)"),
 "C17": ("model_checking",
         "TLC checks SimpleEventgroup of spec/SD.tla (endpoint set, has_clients, initial / explicit / cyclic notification tasks "
         "with their asyncio hop structure, per-destination session ids) against Mon_C17 for all schedules within bounds and "
         "catches the as-shipped one-shot-iterable defect; the monitor judges real SimpleService histories (IPv4/IPv6 "
         "endpoints, notify_once with list / tuple / iterator / generator / dict view, cyclic rounds, refused "
         "subscriptions, counters next to the wrap, the values mapping replaced as a whole with other keys / another order); "
         "traces validated against SDTrace.tla", "DESIGN.md §7 C17", TECH, TRUST),
 "C01": ("model_checking",
         "TLC checks the round-trip, length, concatenation and truncation laws of Wire.tla (EncMsg/DecMsg/DecAll) on 31932 "
         "enumerated boundary values; the real build / parse / datagram_received are recorded on the boundary domain, on random "
         "full-range messages incl. payloads around 64 KiB, on every small length value and on truncations, and TLC compares "
         "every record byte for byte / field by field with the specification", "DESIGN.md §7 C01", FT, FN),
 "C02": ("model_checking",
         "encoding is specified as a relation (ValidLayout: the bytes decode, with the TLA+ decoder, to exactly the original "
         "option runs of every entry), so any sharing strategy is accepted; TLC checks the SD laws on the boundary domain and "
         "judges every recorded assign_option_indexes().build() / send_sd of messages with shared, repeated, overlapping runs, "
         "runs of 0..17 options, up to 300 distinct options and over-wide fields: valid layout, or an error exactly when the "
         "message is not representable", "DESIGN.md §7 C02", FT, FN),
 "C03": ("model_checking",
         "decoder half: TLC (total TLA+ decoders of Wire.tla) classifies every input of a mutation corpus: value + unconsumed "
         "suffix, parse error, or Unicode error only for non-ASCII configuration text, any other exception or a time-out is a "
         "violation; live half: twin runs of a real started stack with and without a rejected datagram (nine classes, every "
         "position) must be observably identical incl. a state probe, compared in TLC; service endpoint never raises",
         "DESIGN.md §7 C03", FT, FN),
 "C18": ("model_checking",
         "TLC explores Stream.tla exhaustively: every stream of <= 3-4 abstract messages incl. invalid headers and truncations, "
         "every segmentation and every interleaving of reader and transport yields the results of datagram decoding (a spec "
         "mutant is caught); the real SOMEIPHeader.read on an asyncio.StreamReader is run for every cut position, pairs of cuts, "
         "1-byte chunks and random cuts and TLC compares the result sequence with Wire!StreamResults", "DESIGN.md §7 C18",
         "TLA+ state machine of the stream reader model-checked over all chunkings; recorded runs of the real reader evaluated against Wire.tla in TLC", FN),
 "C19": ("model_checking",
         "TLC checks the wildcard laws of Match.tla on all 54 x 54 pairs of descriptions (symmetry, monotonicity, find/offer "
         "duality, subscribe and for_service rules); every row of the truth tables is evaluated on the real functions under "
         "several concretisations incl. the neighbours of the wildcard constants and compared by TLC", "DESIGN.md §7 C19",
         "TLA+ functional specification (Match.tla) model-checked exhaustively; truth tables replayed on the real functions and compared in TLC",
         "exhaustive over the abstract domain {c1, c2, ANY} per field (representative: the code only compares for equality)"),
 "C20": ("model_checking",
         "TLC checks decode o encode o decode = decode on the boundary domain of Wire.tla; every accepted input of a corpus of "
         "valid encodings, an independent non-canonical encoder, mutations and random strings is re-encoded by the real code and "
         "decoded again, and TLC compares with the TLA+ decoder's value of the input (kept information: unknown option types, "
         "flag bits, protocol numbers, unreferenced options, raw indexes and counts)", "DESIGN.md §7 C20", FT, FN),
 "C04": ("model_checking",
         "TLC proves that the TLA+ monitor Mon_C04 can never fire on the two-stack specification spec/SD2.tla (two instances of "
         "the stack of SDCore.tla -- offerer with one instance / eventgroup, watcher with watch-all and auto-subscribe "
         "listeners --, a network with loss windows, single drop / duplication / delay, crash / restart and graceful stop / "
         "start, a second overlapping auto-subscription that the application may withdraw) for every placement of 2 (thorough: 3-4) disturbance steps in the first ten ticks, every order of "
         "simultaneously due timers and (thorough) every interleaving of the two loops, in finite-TTL and infinite-TTL "
         "configurations, and that four design deviations are caught; two real stacks on virtual loops with a shared clock and "
         "a harness network run swept and seeded fault schedules, judged at every idle instant by the same monitor in TLC, and "
         "their traces are validated against SD2.tla (SD2Trace.tla)", "DESIGN.md §7 C04",
         "TLA+ two-stack spec + TLC exhaustive check of the property monitor Mon_C04; monitor pass and trace validation of real "
         "two-stack executions in TLC",
         "bounded: 2-4 disturbance steps within ten ticks in TLC; swept / seeded fault schedules on the real code; with infinite "
         "TTLs crash+restart of the offering stack is excluded from the model (known finding F1, KNOWN_FINDINGS.jsonl); zero "
         "network latency unless a delay disturbance is applied"),
}
claimed = sorted(CLAIMS)
m = {"version": 1, "setup_cmd": "./setup.sh",
     "hooks": {"guard": "PYSOMEIP_VERIF",
               "enable": "no source hooks: all observation points are public API (listener callbacks, transport.sendto, return "
                         "values, exceptions); the harness imports /repo/src of the working tree on every run",
               "baseline_off_cmd": "cd /repo && /venv/bin/python -m pytest -ra -q -p no:cacheprovider --timeout=900 "
                                   "--continue-on-collection-errors tests",
               "source_commits": [], "add_only": True},
     "engines": [{"name": "tlc", "path": "/opt/veriftools/tla/tla2tools.jar", "serves_properties": claimed,
                  "kind_free_text": "TLC 1.8 explicit-state model checker: exhaustive checks of the TLA+ system specifications "
                                    "composed with property monitors, evaluation of TLA+ monitors / functional specs over traces "
                                    "and call records of the real code, trace validation"}],
     "checks": [], "not_applicable": [],
     "notes": "see DESIGN.md; KNOWN_FINDINGS.jsonl lists repaired defects (fixed:) and open findings"}
for pid in claimed:
    level, text, ref, tech, note = CLAIMS[pid]
    m["checks"].append({"property_id": pid, "quick_cmd": "./check %s --tier quick" % pid,
                        "thorough_cmd": "./check %s --tier thorough" % pid,
                        "evidence_file": "/verif/evidence/%s.json" % pid,
                        "replay_cmd_template": "./check %s --replay {path}" % pid, "engine": "tlc",
                        "level_claimed": {"category": level, "text": text, "design_ref": ref},
                        "level_note": note, "technique": tech})
for p in props:
    if p["id"] not in CLAIMS:
        m["not_applicable"].append({"property_id": p["id"],
                                    "reason": "check not built yet in this revision (planned: DESIGN.md §7); not claimed"})
json.dump(m, open(os.path.join(ROOT, "MANIFEST.json"), "w"), indent=1)
print("claimed:", claimed)
