-------------------------------- MODULE Match --------------------------------
(* Functional specification of the matching rules of someip/config.py (C19) over an abstract
   domain: every field is one of two concrete values or the wildcard ANY.  The code compares
   fields only for equality with each other and with the wildcard constants, so this domain is
   representative; the harness concretises c1 / c2 / ANY in several ways (neighbours of the
   wildcard constants, random values) and TLC compares every result with these operators.

   Which side may carry a wildcard:  matches_offer -- the description (filter);
   matches_find -- the FindService entry;  matches_subscribe -- the description (instance, major);
   matches_service -- either side.  Service ids never wildcard.                             *)
EXTENDS Naturals, Sequences, FiniteSets, TLC

ANY == "ANY"
Val == {"c1", "c2", ANY}
Desc == [sid : {"c1", "c2"}, iid : Val, maj : Val, min : Val]
Fields == {"iid", "maj", "min"}

MatchesOffer(f, e)   == f.sid = e.sid /\ \A x \in Fields : f[x] = ANY \/ f[x] = e[x]
MatchesFind(s, e)    == s.sid = e.sid /\ \A x \in Fields : e[x] = ANY \/ s[x] = e[x]
MatchesService(a, b) == a.sid = b.sid /\ \A x \in Fields : a[x] = ANY \/ b[x] = ANY \/ a[x] = b[x]
\* e: [sid, iid, maj, eg]; egs: the eventgroups the service declares
MatchesSubscribe(s, egs, e) == s.sid = e.sid /\ (s.iid = ANY \/ s.iid = e.iid) /\ (s.maj = ANY \/ s.maj = e.maj) /\ e.eg \in egs
\* Eventgroup.for_service: g = [sid, iid, maj] filter; succeeds iff the filter accepts the service's offer
ForService(g, s) ==
  LET f == [sid |-> g.sid, iid |-> g.iid, maj |-> g.maj, min |-> ANY] IN
  IF MatchesOffer(f, s) THEN [ok |-> TRUE, iid |-> s.iid, maj |-> s.maj] ELSE [ok |-> FALSE, iid |-> "", maj |-> ""]

Concrete(d) == \A x \in Fields : d[x] # ANY
Widen(f, x) == [f EXCEPT ![x] = ANY]

\* ---- laws (checked by TLC on every pair of descriptions: MC_C19)
Laws(a, b) ==
  /\ MatchesService(a, b) = MatchesService(b, a)                                         \* symmetric
  /\ \A x \in Fields : (MatchesOffer(a, b) => MatchesOffer(Widen(a, x), b))               \* wildcarding a filter never
                       /\ (MatchesService(a, b) => MatchesService(Widen(a, x), b))        \* loses a match
                       /\ (MatchesFind(a, b) => MatchesFind(a, Widen(b, x)))
  /\ Concrete(a) => (MatchesFind(a, b) <=> MatchesOffer(b, a))      \* a concrete service answers a filter's find entry
                                                                     \* exactly when the filter accepts its offer entry
  /\ (Concrete(a) /\ Concrete(b)) => (MatchesOffer(a, b) <=> a = b)
  /\ \A g \in {1, 2} : MatchesSubscribe(a, {1}, [sid |-> b.sid, iid |-> b.iid, maj |-> b.maj, eg |-> g])
                        <=> (g = 1 /\ a.sid = b.sid /\ (a.iid = ANY \/ a.iid = b.iid) /\ (a.maj = ANY \/ a.maj = b.maj))
  /\ LET r == ForService([sid |-> a.sid, iid |-> a.iid, maj |-> a.maj], b) IN
       /\ r.ok <=> MatchesOffer([a EXCEPT !.min = ANY], b)
       /\ r.ok => (r.iid = b.iid /\ r.maj = b.maj)

\* ---- verdict on one recorded call of the real functions (abstract operands, observed result)
MatchVerdict(r) ==
  CASE r.op = "matches_offer"   -> IF r.res = MatchesOffer(r.a, r.b) THEN "" ELSE "matches_offer_wrong"
    [] r.op = "matches_find"    -> IF r.res = MatchesFind(r.a, r.b) THEN "" ELSE "matches_find_wrong"
    [] r.op = "matches_service" -> IF r.res = MatchesService(r.a, r.b) THEN "" ELSE "matches_service_wrong"
    [] r.op = "matches_subscribe" ->
         IF r.res = MatchesSubscribe(r.a, {r.egs[i] : i \in DOMAIN r.egs}, r.b) THEN "" ELSE "matches_subscribe_wrong"
    [] r.op = "for_service" ->
         LET x == ForService(r.a, r.b) IN
         IF r.ok # x.ok THEN "for_service_success_wrong"
         ELSE IF x.ok /\ (r.iid # x.iid \/ r.maj # x.maj) THEN "for_service_does_not_adopt_the_offer" ELSE ""
    [] r.op = "convert" -> IF r.same THEN "" ELSE "conversion_loses_" \o r.what
=============================================================================
