---------------------------- MODULE Mon_C12 ----------------------------
(* Property monitor for C12 -- "FindService is answered only by matching, ready instances, by
   unicast, in time".
     in rx (find entries) / life-cycle inputs;  rand lo hi val;  out tx dst es;  idle, adv.
   Per instance the monitor tracks, from inputs and observed transmissions alone, whether the
   first offer has certainly left (must answer), is due at this very instant (may answer: it may
   or may not have been queued yet) or is still ahead / the instance is stopped (must not).  *)
EXTENDS MonAnn

MonInit(cfg) ==
  LifeInit(cfg) @@ [ till  |-> [i \in Range(cfg.insts) |-> 0],      \* ticks until the first offer is due; -1 = delay not drawn yet
                     first |-> [i \in Range(cfg.insts) |-> FALSE],  \* a first offer of this incarnation has been transmitted
                     grace |-> [i \in Range(cfg.insts) |-> 0],      \* ticks in which offers queued by the PREVIOUS incarnation can
                                                                    \* still leave the collector (they say nothing about this one)
                     pend  |-> <<>> ]   \* [inst, dst, lo, hi (remaining window, -1 = delay not drawn yet), must]
W(m) == m.cfg.collect
InitKnown(m) == m.cfg.initMin = m.cfg.initMax
RRKnown(m) == m.cfg.rrMin = m.cfg.rrMax

\* Answers pending for an instance that is stopped.  One that may already sit in the collector (its delay has elapsed while the
\* instance was ready) may still leave with it.  One whose delay has not elapsed is STALE: it is no longer required, and it may be
\* sent only if, in the tick in which its delay elapses, the instance has been started again and has sent its first offer (ok) --
\* a stopped instance and one in its initial wait phase stay silent.
Stopped(pend, z, w) ==
  [j \in DOMAIN pend |-> IF pend[j].inst \notin z THEN pend[j]
                         ELSE IF pend[j].lo = 0 /\ (~pend[j].stale \/ pend[j].ok)
                         THEN [pend[j] EXCEPT !.must = FALSE, !.stale = FALSE, !.hi = IF @ > w THEN w ELSE @]
                         ELSE [pend[j] EXCEPT !.must = FALSE, !.stale = TRUE]]

Api(m, e) ==
  LET a == Starts(m, e)  z == Stops(m, e)
      m1 == Life(m, e)
      m2 == [m1 EXCEPT !.till  = [i \in DOMAIN @ |-> IF i \in a THEN (IF InitKnown(m) THEN m.cfg.initMin ELSE -1) ELSE @[i]],
                       !.first = [i \in DOMAIN @ |-> IF i \in a \cup z THEN FALSE ELSE @[i]],
                       !.grace = [i \in DOMAIN @ |-> IF i \in z /\ W(m) > 0 THEN W(m) + 1 ELSE @[i]],
                       \* answers owed by an instance that is stopped meanwhile: one whose delay has not yet elapsed can no longer be
                       \* sent at all (a stopped instance and, after a restart, one in its initial wait phase stay silent); one that
                       \* may already sit in the collector may still leave with it, and is no longer required
                       !.pend  = Stopped(@, z, W(m))]
  IN m2

ClApplied(m) ==
  LET z == IF m.cl THEN {i \in Announced(m) : m.run[i]} ELSE {}
  IN [Settled(m) EXCEPT !.first = [i \in DOMAIN @ |-> IF i \in z THEN FALSE ELSE @[i]],
                        !.grace = [i \in DOMAIN @ |-> IF i \in z /\ W(m) > 0 THEN W(m) + 1 ELSE @[i]],
                        !.pend  = Stopped(@, z, W(m))]

Status(m, i) ==   \* "must", "may", "not"
  IF ~m.run[i] THEN "not"
  ELSE IF m.cl THEN "may"
  ELSE IF m.first[i] THEN "must"
  ELSE IF m.till[i] = 0 THEN "may"
  ELSE "not"

RECURSIVE Finds(_, _, _, _)
Finds(m, src, mc, es) ==
  IF es = <<>> THEN m
  ELSE LET en == Head(es)
           new == IF en.ty # "find" THEN <<>>
                  ELSE LET hit == SelectSeq(m.annl, LAMBDA i : FindMatches(m, i, en.svc) /\ Status(m, i) # "not")
                       IN [j \in DOMAIN hit |->
                             [inst |-> hit[j], dst |-> src, must |-> Status(m, hit[j]) = "must", stale |-> FALSE, ok |-> FALSE, due |-> FALSE,
                              lo |-> IF ~mc THEN 0 ELSE IF RRKnown(m) THEN m.cfg.rrMin ELSE -1,
                              hi |-> IF ~mc THEN W(m) ELSE IF RRKnown(m) THEN m.cfg.rrMin + W(m) ELSE -1]]
       IN Finds([m EXCEPT !.pend = @ \o new], src, mc, Tail(es))

\* a delay was drawn: initial delay of a freshly started instance, or the answer delay of a multicast find
Rand(m, e) ==
  IF e.lo = m.cfg.rrMin /\ e.hi = m.cfg.rrMax /\ \E j \in DOMAIN m.pend : m.pend[j].lo = -1
  THEN IF e.val < e.lo \/ e.val > e.hi THEN Fail(m, "delay_outside_window")
       ELSE [m EXCEPT !.pend = [j \in DOMAIN @ |-> IF @[j].lo = -1 THEN [@[j] EXCEPT !.lo = e.val, !.hi = e.val + W(m)] ELSE @[j]]]
  ELSE IF e.lo = m.cfg.initMin /\ e.hi = m.cfg.initMax
  THEN LET waiting == SelectSeq(m.annl, LAMBDA i : m.run[i] /\ m.till[i] = -1) IN
       IF waiting = <<>> THEN m
       ELSE IF e.val < e.lo \/ e.val > e.hi THEN Fail(m, "delay_outside_window")
       ELSE [m EXCEPT !.till[Head(waiting)] = e.val]
  ELSE IF e.lo = m.cfg.rrMin /\ e.hi = m.cfg.rrMax THEN m
  ELSE Fail(m, "delay_window_not_the_configured_one")

\* answers whose delay was never drawn: dropped if optional, a failure if required
Undrawn(m) ==
  LET m1 == IF \E j \in DOMAIN m.pend : m.pend[j].lo = -1 /\ m.pend[j].must THEN Fail(m, "find_not_answered") ELSE m
  IN [m1 EXCEPT !.pend = SelectSeq(@, LAMBDA p : p.lo # -1)]

\* An observed answer is matched to a pending expectation whose window is open.  Required ones first (earliest closing);
\* but when an OPTIONAL one that closes earlier is open too, the answer may just as well have been its answer and the
\* required one may still be served later: the optional one is dropped and the required one stays on as optional
\* (both readings are then accepted, and nothing is demanded that cannot be told from outside).
Answer(m, dst, en) ==
  LET is == InstOfSvc(m, en.svc)
      P(must) == {j \in DOMAIN m.pend : m.pend[j].inst \in is /\ m.pend[j].dst = dst /\ m.pend[j].must = must
                                        /\ m.pend[j].lo = 0 /\ (~m.pend[j].stale \/ m.pend[j].ok)}
      First(S) == CHOOSE j \in S : \A x \in S : m.pend[j].hi < m.pend[x].hi \/ (m.pend[j].hi = m.pend[x].hi /\ j <= x)
      drop(q, j) == SubSeq(q, 1, j - 1) \o SubSeq(q, j + 1, Len(q))
      m1 == IF P(TRUE) # {}
            THEN LET jm == First(P(TRUE))
                     E  == {j \in P(FALSE) : m.pend[j].hi < m.pend[jm].hi}
                 IN IF E = {} THEN [m EXCEPT !.pend = drop(@, jm)]
                    ELSE [m EXCEPT !.pend = drop([@ EXCEPT ![jm].must = FALSE], First(E))]
            ELSE IF P(FALSE) # {} THEN [m EXCEPT !.pend = drop(@, First(P(FALSE)))]
            ELSE IF \E j \in DOMAIN m.pend : m.pend[j].inst \in is /\ m.pend[j].dst = dst /\ m.pend[j].stale /\ m.pend[j].lo = 0
                 THEN Fail(m, "answer_from_an_instance_stopped_meanwhile_and_not_ready_again")
            ELSE IF \E j \in DOMAIN m.pend : m.pend[j].inst \in is /\ m.pend[j].dst = dst THEN Fail(m, "answer_before_its_delay")
            ELSE IF is = {} THEN Fail(m, "unknown_identity")
            ELSE IF \A i \in is : ~m.run[i] THEN Fail(m, "answer_from_stopped_instance")
            ELSE Fail(m, "unsolicited_unicast_offer")
  IN IF \A i \in is : en.ttl # (IF "ttl" \in DOMAIN m.cfg.inst[i] THEN m.cfg.inst[i].ttl ELSE m.cfg.annTTL)
     THEN Fail(m1, "answer_with_wrong_ttl") ELSE m1

RECURSIVE Tx(_, _, _)
Tx(m, dst, es) ==
  IF es = <<>> THEN m
  ELSE LET en == Head(es)
           m1 == IF en.ty # "offer" \/ en.ttl = 0 THEN m
                 ELSE IF dst = "mc"
                 \* (only an offer that can be THIS incarnation's: its first offer is due or past, and nothing the previous
                 \*  incarnation queued can still be in the collector)
                 THEN [m EXCEPT !.first = [i \in DOMAIN @ |-> IF i \in InstOfSvc(m, en.svc) /\ m.run[i] /\ m.till[i] = 0 /\ m.grace[i] = 0
                                                                THEN TRUE ELSE @[i]]]
                 ELSE Answer(m, dst, en)
       IN Tx(m1, dst, Tail(es))

Idle(m0) ==
  LET m == Undrawn(ClApplied(m0)) IN
  IF \E j \in DOMAIN m.pend : m.pend[j].must /\ m.pend[j].hi = 0 THEN Fail(m, "find_not_answered")
  ELSE [m EXCEPT !.pend = SelectSeq(@, LAMBDA p : p.hi > 0)]
Adv(m0, d) ==
  LET m  == Undrawn(m0)
      m1 == IF \E j \in DOMAIN m.pend : m.pend[j].must /\ m.pend[j].hi < d THEN Fail(m, "find_not_answered") ELSE m
      keep == SelectSeq(m1.pend, LAMBDA p : p.hi >= d)
  IN [m1 EXCEPT !.pend = [j \in DOMAIN keep |-> [keep[j] EXCEPT !.hi = @ - d, !.lo = IF @ > d THEN @ - d ELSE 0,
                                                                !.due = keep[j].lo > 0 /\ keep[j].lo <= d]],
                !.till = [i \in DOMAIN @ |-> IF @[i] = -1 THEN -1 ELSE IF @[i] > d THEN @[i] - d ELSE 0],
                !.grace = [i \in DOMAIN @ |-> IF @[i] > d THEN @[i] - d ELSE 0]]

Ready(m) == [m EXCEPT !.pend = [j \in DOMAIN @ |-> IF @[j].stale /\ @[j].due /\ ~@[j].ok /\ Status(m, @[j].inst) # "not"
                                                    THEN [@[j] EXCEPT !.ok = TRUE] ELSE @[j]]]
MonStep0(m0, e) ==
  LET m == [m0 EXCEPT !.n = @ + 1] IN
  CASE e.k = "in" /\ e.op = "rx" -> IF e.uc THEN Finds(Undrawn(m), e.src, e.mc, e.es) ELSE Undrawn(m)
    [] e.k = "in" /\ e.op # "rx" -> Api(Undrawn(m), e)
    [] e.k = "rand" -> Rand(m, e)
    [] e.k = "out" /\ e.op = "tx" -> Tx(m, e.dst, e.es)
    [] e.k = "out" /\ e.op = "cl_applied" -> IF e.comp = "ann" THEN ClApplied(m) ELSE m
    [] e.k = "idle" -> Idle(m)
    [] e.k = "adv"  -> Adv(m, e.d)
    [] e.k = "exc"  -> Fail(m, "exception")
    [] OTHER -> m
\* (whether a stale answer may go out is decided in the tick in which its delay elapses, after every event of that tick)
MonStep(m0, e) == Ready(MonStep0(m0, e))
=============================================================================
