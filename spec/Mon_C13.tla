---------------------------- MODULE Mon_C13 ----------------------------
(* Property monitor for C13 -- "FindService is sent only for watched services not yet found,
   bounded in number".   in disc_start / disc_stop / watch flt / rx (offer entries, reboot
   evidence) / connlost;  rand;  out tx dst es (find entries);  idle, adv.
   Ghost: live offers from the inputs (as in Mon_C05), the watched filters, and the round
   schedule (start + drawn initial delay, then doubling repetition delays, 1 + reps rounds).
   Offers arriving or ending in the very tick of a round make both readings acceptable (DESIGN
   §9): such filters may or may not appear in that round.                                     *)
EXTENDS Naturals, Integers, Sequences, FiniteSets, TLC
FOREVER == 16777215
Range(s) == {s[i] : i \in DOMAIN s}
Fail(m, clause) == IF m.bad = "" THEN [m EXCEPT !.bad = clause, !.at = m.n] ELSE m
Pow2(i) == CASE i = 0 -> 1 [] i = 1 -> 2 [] i = 2 -> 4 [] i = 3 -> 8 [] i = 4 -> 16 [] OTHER -> 32
Put(f, k, v) == [x \in DOMAIN f \cup {k} |-> IF x = k THEN v ELSE f[x]]

Idle0 == -2        \* no find task
Await == -1        \* task started, initial delay not drawn yet
MonInit(cfg) ==
  [ cfg |-> cfg, watched |-> Range(cfg.watch0),
    sess |-> <<>>, live |-> <<>>,           \* <<src, svc>> -> remaining life
    touched |-> {},                          \* services whose known-state changed in this tick
    nextq |-> Idle0, k |-> 0,                \* ticks to the next round; rounds sent so far
    due |-> FALSE,                           \* a round is due in this tick and has not been seen yet
    loose |-> FALSE,                         \* an ambiguous round happened: only the negative clauses are enforced
    bad |-> "", at |-> 0, n |-> 0 ]

Matches(m, f, s) == s \in Range(m.cfg.match[f])
Known(m, s) == \E k \in DOMAIN m.live : k[2] = s /\ m.live[k] > 0
FoundSure(m, f) == \E s \in Range(m.cfg.svcs) : Matches(m, f, s) /\ Known(m, s) /\ s \notin m.touched
UnfoundSure(m, f) == \A s \in Range(m.cfg.svcs) : Matches(m, f, s) => (~Known(m, s) /\ s \notin m.touched)
Watching(m, s) == \E f \in m.watched : Matches(m, f, s)

SetLive(m, k, v) == [m EXCEPT !.live = Put(@, k, v), !.touched = @ \cup {k[2]}]
Entry(m, src, en) ==
  IF en.ty # "offer" THEN m
  ELSE IF en.ttl = 0 \/ ~Watching(m, en.svc) THEN SetLive(m, <<src, en.svc>>, 0)
  ELSE SetLive(m, <<src, en.svc>>, en.ttl)
RECURSIVE Entries(_, _, _)
Entries(m, src, es) == IF es = <<>> THEN m ELSE Entries(Entry(m, src, Head(es)), src, Tail(es))
KillSrc(m, P(_)) == [m EXCEPT !.touched = @ \cup {k[2] : k \in {x \in DOMAIN m.live : P(x) /\ m.live[x] > 0}},
                              !.live = [k \in DOMAIN @ |-> IF P(k) THEN 0 ELSE @[k]]]
Rx(m, e) ==
  LET k   == <<e.src, e.mc>>
      reb == k \in DOMAIN m.sess /\ e.rb /\ (~m.sess[k][1] \/ m.sess[k][2] >= e.sid)
      m1  == [m EXCEPT !.sess = Put(@, k, <<e.rb, e.sid>>)]
      m2  == IF reb THEN KillSrc(m1, LAMBDA x : x[1] = e.src) ELSE m1
  IN IF e.uc THEN Entries(m2, e.src, e.es) ELSE m2

InitKnown(m) == m.cfg.initMin = m.cfg.initMax
Fire(m) == IF m.nextq = 0 THEN [m EXCEPT !.due = TRUE] ELSE m
Api(m, e) ==
  CASE e.op = "disc_start" -> IF m.nextq # Idle0 THEN m
                              ELSE IF m.watched = {} THEN m       \* nothing watched: the task ends at once
                              ELSE Fire([m EXCEPT !.nextq = IF InitKnown(m) THEN m.cfg.initMin ELSE Await, !.k = 0, !.loose = FALSE])
    [] e.op = "disc_stop"  -> [m EXCEPT !.nextq = Idle0, !.due = FALSE, !.loose = FALSE, !.k = m.cfg.reps + 1]
    [] e.op = "watch"      -> [m EXCEPT !.watched = @ \cup (IF e.flt = "ALL" THEN {} ELSE {e.flt}), !.loose = (m.nextq # Idle0) \/ @]
    [] e.op = "connlost"   -> [KillSrc(m, LAMBDA x : TRUE) EXCEPT !.loose = (m.nextq # Idle0) \/ @]
    [] OTHER -> m
Rand(m, e) ==
  IF m.nextq # Await THEN m
  ELSE IF e.lo # m.cfg.initMin \/ e.hi # m.cfg.initMax THEN Fail(m, "delay_window_not_the_configured_one")
  ELSE IF e.val < e.lo \/ e.val > e.hi THEN Fail(m, "initial_delay_outside_window")
  ELSE Fire([m EXCEPT !.nextq = e.val])

\* a round has been sent (or was skipped because everything is found): schedule the next one
After(m, sent) ==
  IF ~sent THEN [m EXCEPT !.nextq = Idle0, !.due = FALSE]
  ELSE IF m.k >= m.cfg.reps THEN [m EXCEPT !.nextq = Idle0, !.due = FALSE, !.k = @ + 1]
  ELSE [m EXCEPT !.nextq = Pow2(m.k) * m.cfg.base, !.due = FALSE, !.k = @ + 1]

Tx(m, e) ==
  LET fs == SelectSeq(e.es, LAMBDA en : en.ty = "find") IN
  IF fs = <<>> THEN m
  ELSE LET names == {fs[i].svc : i \in DOMAIN fs}
           m1 == IF e.dst # "mc" THEN Fail(m, "find_not_multicast")
                 ELSE IF \E i \in DOMAIN fs : fs[i].ttl # m.cfg.findTTL THEN Fail(m, "find_with_wrong_ttl")
                 ELSE IF \E f \in names : f \notin m.watched THEN Fail(m, "find_for_unwatched_service")
                 ELSE IF Len(fs) # Cardinality(names) THEN Fail(m, "find_entry_repeated")
                 ELSE IF \E f \in names : FoundSure(m, f) THEN Fail(m, "find_for_service_already_found")
                 ELSE IF m.loose /\ m.k > m.cfg.reps THEN Fail(m, "more_rounds_than_configured")
                 ELSE IF ~m.loose /\ ~m.due THEN Fail(m, IF m.nextq = Idle0 THEN "find_after_rounds_ended" ELSE "find_at_unscheduled_time")
                 ELSE IF ~m.loose /\ \E f \in m.watched : UnfoundSure(m, f) /\ f \notin names THEN Fail(m, "unfound_service_missing_in_round")
                 ELSE m
       IN IF m.loose THEN [m1 EXCEPT !.k = @ + 1, !.due = FALSE] ELSE After(m1, TRUE)

\* the tick of a due round is over: it was sent (handled in Tx) or there was nothing to send
Settle(m) ==
  IF ~m.due THEN m
  ELSE IF ~m.loose /\ \E f \in m.watched : UnfoundSure(m, f) THEN Fail(After(m, FALSE), "find_round_missing")
  ELSE IF \A f \in m.watched : FoundSure(m, f) THEN After(m, FALSE)
  ELSE [m EXCEPT !.loose = TRUE, !.due = FALSE, !.nextq = Idle0]   \* cannot tell from outside whether the task went on:
                                                                     \* from here only the content of rounds and their number are judged

Adv(m0, d) ==
  LET m  == Settle(m0)
      dec(x) == IF x = FOREVER \/ x = 0 THEN x ELSE IF x > d THEN x - d ELSE 0
      ended == {k[2] : k \in {x \in DOMAIN m.live : m.live[x] # 0 /\ dec(m.live[x]) = 0}}
      m1 == [m EXCEPT !.live = [k \in DOMAIN @ |-> dec(@[k])], !.touched = ended]
  IN IF m1.nextq < 0 \/ m1.loose THEN m1
     ELSE IF m1.nextq < d THEN Fail([m1 EXCEPT !.nextq = Idle0], "find_round_missing")
     ELSE Fire([m1 EXCEPT !.nextq = @ - d])

MonStep(m0, e) ==
  LET m == [m0 EXCEPT !.n = @ + 1] IN
  IF m0.bad # "" THEN m0 ELSE
  CASE e.k = "in" /\ e.op = "rx" -> Rx(m, e)
    [] e.k = "in" /\ e.op # "rx" -> Api(m, e)
    [] e.k = "rand" -> Rand(m, e)
    [] e.k = "out" /\ e.op = "tx" -> Tx(m, e)
    [] e.k = "out" /\ e.op = "cl_applied" -> IF e.comp = "disc" THEN KillSrc(m, LAMBDA x : TRUE) ELSE m
    [] e.k = "idle" -> m
    [] e.k = "adv"  -> Adv(m, e.d)
    [] e.k = "exc"  -> Fail(m, "exception")
    [] OTHER -> m
=============================================================================
