------------------------------- MODULE SDSim -------------------------------
(* Mode 2 (spec -> code): behaviours of SD.tla for replay into the real code.  Adds, to any
   configuration of SD.tla, the history of observable events with the loop position of every
   input -- (tick, iteration index within the tick) -- so that the harness can inject the inputs
   exactly where the specification put them.  Used with  tlc -simulate : at the end of every
   simulated behaviour the history is printed as JSON.                                       *)
EXTENDS SD, Json
CONSTANT SimDepth
VARIABLES hist, clk, iter
simvars == <<s, hist, clk, iter>>

IsTick(o) == \E i \in DOMAIN o : o[i].k = "adv"
Stamp(e, t, j) == IF e.k = "in" THEN e @@ [t |-> t, j |-> j] ELSE e @@ [t |-> t]
SimInit == Init /\ hist = <<>> /\ clk = 0 /\ iter = 0
SimNext ==
  /\ Next
  /\ LET o == s'.outs
         polled == s.todo = 0 /\ ~IsTick(o)
         d == IF IsTick(o) THEN (CHOOSE i \in DOMAIN o : o[i].k = "adv") ELSE 0 IN
     /\ clk' = IF IsTick(o) THEN clk + o[d].d ELSE clk
     /\ iter' = IF IsTick(o) THEN 0 ELSE IF polled THEN iter + 1 ELSE iter
     /\ hist' = hist \o [i \in DOMAIN o |-> Stamp(o[i], IF o[i].k = "adv" THEN clk' ELSE clk, IF iter = 0 THEN 0 ELSE iter - 1)]
SimSpec == SimInit /\ [][SimNext]_simvars
\* printed once per behaviour: when the simulation depth is reached or the behaviour cannot go on
Dump == (TLCGet("level") = SimDepth \/ ~ENABLED Next) => PrintT(<<"SIM", ToJson(hist)>>)
=============================================================================
