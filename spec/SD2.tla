-------------------------------- MODULE SD2 --------------------------------
(* TWO pysomeip service-discovery stacks (operators: SDCore.tla), each on its own event loop, joined by
   a network that can lose, drop, duplicate and delay datagrams, and an environment that can crash and
   restart a stack, or stop and start it gracefully -- the set-up of property C04 and of the two-stack
   harness harness/net2.py:

     srv   announces instance I1 (service s1, eventgroup 1), accepts every subscription
     wat   watches everything (listener L1, observable) and auto-subscribes to eventgroup G1 of s1
           (find_subscribe_eventgroup: listener LA under filter F1)

   One step = one event-loop callback of ONE stack (NodeRun), an iteration boundary of one stack
   (NodePoll: datagrams that have arrived + due timers), a disturbance (the Fault actions), or the passing of
   time when both loops are idle (Tick).  The loops of the two stacks interleave arbitrarily inside
   one instant (Sched = "any"), or srv has priority (Sched = "prio": a reduction for quick runs).
   Disturbances happen at the beginning of an instant, as in the harness.                        *)
EXTENDS SDCore

CONSTANTS
  Kinds,        \* disturbances the environment may use: subset of
                \*   {"crash_srv","crash_wat","stop_srv","stop_wat","loss","drop","dup","delay","unfind"}
  MaxFaults,    \* budget of disturbance steps (a crash and its restart are two)
  FaultWindow,  \* disturbances start only while clk <= FaultWindow
  Horizon,      \* the behaviour ends when clk reaches Horizon
  Delays,       \* delays a "delay" disturbance may apply to the next datagram
  Sched         \* "any" | "prio"

Nodes == {"srv", "wat"}
Addr  == [srv |-> "a1", wat |-> "a2"]
Other(x) == IF x = "srv" THEN "wat" ELSE "srv"
\* what a Subscribe entry of the watcher's subscriber means to the offering stack
EgOf  == [G1 |-> [svc |-> "s1", eg |-> 1]]

VARIABLES
  nd,     \* [node -> stack record]  (InitRec of the node while it is down)
  up,     \* [node -> "run" | "stopped" | "down"]
  net,    \* sequence of [to, left, e]: datagrams (e.op = "rx") and harness calls (prot_start / prot_stop) on their way
  lossy,  \* a loss window is open
  pf,     \* one-shot disturbance waiting for the next datagram: <<>> | <<"drop">> | <<"dup">> | <<"delay", d>>
  nf,     \* disturbance steps taken
  clk,    \* virtual time
  fresh,  \* no stack has run yet in this instant
  obs     \* events of the last step (the alphabet of Mon_C04: fault, offered/stopped, subscribed/unsubscribed, wire, idle, adv)
vars2 == <<nd, up, net, lossy, pf, nf, clk, fresh, obs>>

NodeInit(x) ==
  IF x = "srv" THEN [InitRec EXCEPT !.watch = [l \in DOMAIN @ |-> {}], !.wkeys = <<>>]
  ELSE [InitRec EXCEPT !.ann = <<>>]
\* the very first incarnation may have been up for a long time already: its counters (multicast, towards the peer) have wrapped
FirstInit(x) ==
  IF Cfg.sess0 = <<>> THEN NodeInit(x)
  ELSE [NodeInit(x) EXCEPT !.sessOut = ("mc" :> Cfg.sess0) @@ (Addr[Other(x)] :> Cfg.sess0)]
Call(x, op) == [to |-> x, left |-> 0, e |-> [op |-> op]]
CallE(x, e) == [to |-> x, left |-> 0, e |-> e]
\* harness calls of an instant reach the loop before the datagrams that become due in it, in the order they were made
AddCall(nt, x, op) ==
  LET C == {i \in DOMAIN nt : nt[i].e.op # "rx"}
      n == IF C = {} THEN 0 ELSE CHOOSE i \in C : \A j \in C : j <= i
  IN SubSeq(nt, 1, n) \o <<Call(x, op)>> \o SubSeq(nt, n + 1, Len(nt))
AddCallE(nt, x, e) ==
  LET C == {i \in DOMAIN nt : nt[i].e.op # "rx"}
      n == IF C = {} THEN 0 ELSE CHOOSE i \in C : \A j \in C : j <= i
  IN SubSeq(nt, 1, n) \o <<CallE(x, e)>> \o SubSeq(nt, n + 1, Len(nt))

Init2 ==
  /\ nd = [x \in Nodes |-> FirstInit(x)]
  /\ up = [x \in Nodes |-> "run"]
  /\ net = <<Call("srv", "prot_start"), Call("wat", "prot_start")>>
  /\ lossy = FALSE /\ pf = <<>> /\ nf = 0 /\ clk = 0 /\ fresh = TRUE /\ obs = <<>>

-----------------------------------------------------------------------------
Deliverable(x) == SelectSeq(net, LAMBDA it : it.to = x /\ it.left = 0)
CanStep(x) == up[x] # "down" /\ (nd[x].todo > 0 \/ nd[x].ready # <<>> \/ Due(nd[x]) # {} \/ Deliverable(x) # <<>>)
MayStep(x) == CanStep(x) /\ (Sched = "any" \/ x = "srv" \/ ~CanStep("srv"))

\* iteration boundary of one loop: what has arrived, then the due timers in any order
NodePoll(x) ==
  /\ MayStep(x) /\ nd[x].todo = 0
  /\ LET s  == nd[x]
         io == [i \in DOMAIN Deliverable(x) |-> [kind |-> "input", e |-> Deliverable(x)[i].e]]
     IN \E tq \in Perms(DueCopies(s)) :
          LET rd == s.ready \o io \o TimerCbs(tq)
          IN nd' = [nd EXCEPT ![x] = [s EXCEPT !.ready = rd, !.todo = Len(rd), !.timers = @ \ Due(s), !.outs = <<>>]]
  /\ net' = SelectSeq(net, LAMBDA it : ~(it.to = x /\ it.left = 0))
  /\ fresh' = FALSE /\ obs' = <<>>
  /\ UNCHANGED <<up, lossy, pf, nf, clk>>

\* a datagram leaves stack x
ConvEntry(en) ==
  IF en.ty = "sub" THEN [ty |-> "sub", svc |-> EgOf[en.g].svc, eg |-> EgOf[en.g].eg, ctr |-> 0, eps |-> en.eps, ttl |-> en.ttl, acc |-> TRUE]
  ELSE en
RxOf(x, e) == [op |-> "rx", k |-> "in", src |-> Addr[x], mc |-> e.dst = "mc", sid |-> e.sid, rb |-> e.rb, uc |-> e.uc,
               es |-> [i \in DOMAIN e.es |-> ConvEntry(e.es[i])]]
\* <<net, pf>> after sending
Transmit(x, e, nt, p) ==
  LET to   == IF e.dst = "mc" \/ e.dst = Addr[Other(x)] THEN Other(x) ELSE ""
      it   == [to |-> to, left |-> (IF p # <<>> /\ p[1] = "delay" THEN p[2] ELSE 0), e |-> RxOf(x, e)]
      gone == lossy \/ to = "" \/ (p # <<>> /\ p[1] = "drop")
  IN <<IF gone THEN nt ELSE IF p # <<>> /\ p[1] = "dup" THEN nt \o <<it, it>> ELSE Append(nt, it), <<>>>>
RECURSIVE SendAll(_, _, _, _)
SendAll(x, es, nt, p) ==
  IF es = <<>> THEN <<nt, p>>
  ELSE IF Head(es).k = "out" /\ Head(es).op = "tx"
       THEN LET r == Transmit(x, Head(es), nt, p) IN SendAll(x, Tail(es), r[1], r[2])
       ELSE SendAll(x, Tail(es), nt, p)
\* what the monitor of C04 sees of the outputs of a callback
ObsOf(x, e) ==
  IF e.k = "out" /\ e.op = "tx"
  THEN <<[k |-> "out", op |-> "wire", node |-> x, mc |-> e.dst = "mc", es |-> [i \in DOMAIN e.es |-> <<e.es[i].ty, e.es[i].ttl>>]]>>
  ELSE IF e.k = "out" /\ e.op \in {"offered", "stopped"} /\ e.lst = "L1" THEN <<[k |-> "out", op |-> e.op, node |-> x]>>
  ELSE IF e.k = "out" /\ e.op = "subscribed" /\ e.acc THEN <<[k |-> "out", op |-> "subscribed", node |-> x]>>
  ELSE IF e.k = "out" /\ e.op = "unsubscribed" THEN <<[k |-> "out", op |-> "unsubscribed", node |-> x]>>
  ELSE IF e.k = "exc" THEN <<e>>
  ELSE <<>>
RECURSIVE ObsAll(_, _)
ObsAll(x, es) == IF es = <<>> THEN <<>> ELSE ObsOf(x, Head(es)) \o ObsAll(x, Tail(es))

FaultEv(kind, node) == [k |-> "in", op |-> "fault", kind |-> kind, node |-> node]
\* one callback of one loop
NodeRun(x) ==
  /\ MayStep(x) /\ nd[x].todo > 0
  /\ LET s  == nd[x]
         c  == Head(s.ready)
         s0 == [s EXCEPT !.ready = Tail(@), !.todo = @ - 1, !.outs = <<>>]
     IN \E ch \in Cfg.randVals :
          LET s1 == [Effect([s0 EXCEPT !.ch = ch], c) EXCEPT !.ch = 0]
              r  == SendAll(x, s1.outs, net, pf)
          IN /\ nd' = [nd EXCEPT ![x] = [s1 EXCEPT !.outs = <<>>, !.ev = 0]]
             /\ net' = r[1] /\ pf' = r[2]
             \* (the one-shot disturbance is consumed by the first datagram of this callback: observable, as in the harness)
             /\ obs' = (IF pf # <<>> /\ r[2] = <<>> THEN <<FaultEv(pf[1] \o "_applied", "")>> ELSE <<>>) \o ObsAll(x, s1.outs)
  /\ fresh' = FALSE
  /\ UNCHANGED <<up, lossy, nf, clk>>

-----------------------------------------------------------------------------
(* ------------------------------ disturbances ----------------------------- *)
CanFault == fresh /\ nf < MaxFaults /\ clk <= FaultWindow
Crash(x) ==
  /\ CanFault /\ ("crash_" \o x) \in Kinds /\ up[x] # "down"
  /\ up' = [up EXCEPT ![x] = "down"] /\ nd' = [nd EXCEPT ![x] = NodeInit(x)]
  /\ net' = SelectSeq(net, LAMBDA it : ~(it.to = x /\ it.left = 0))
  /\ obs' = <<FaultEv("crash", x)>> /\ nf' = nf + 1
  /\ UNCHANGED <<lossy, pf, clk, fresh>>
Restart(x) ==     \* needs no budget of its own kind: whoever may crash may come back
  /\ CanFault /\ up[x] = "down"
  /\ up' = [up EXCEPT ![x] = "run"] /\ nd' = [nd EXCEPT ![x] = NodeInit(x)]
  /\ net' = AddCall(net, x, "prot_start")
  /\ obs' = <<FaultEv("restart", x)>> /\ nf' = nf + 1
  /\ UNCHANGED <<lossy, pf, clk, fresh>>
Stop(x) ==
  /\ CanFault /\ ("stop_" \o x) \in Kinds /\ up[x] = "run"
  /\ up' = [up EXCEPT ![x] = "stopped"] /\ net' = AddCall(net, x, "prot_stop")
  /\ obs' = <<FaultEv("stop", x)>> /\ nf' = nf + 1
  /\ UNCHANGED <<nd, lossy, pf, clk, fresh>>
Start(x) ==
  /\ CanFault /\ up[x] = "stopped"
  /\ up' = [up EXCEPT ![x] = "run"] /\ net' = AddCall(net, x, "prot_start")
  /\ obs' = <<FaultEv("start", x)>> /\ nf' = nf + 1
  /\ UNCHANGED <<nd, lossy, pf, clk, fresh>>
LossOn ==
  /\ CanFault /\ "loss" \in Kinds /\ ~lossy
  /\ lossy' = TRUE /\ obs' = <<FaultEv("loss_on", "")>> /\ nf' = nf + 1
  /\ UNCHANGED <<nd, up, net, pf, clk, fresh>>
LossOff ==
  /\ CanFault /\ lossy
  /\ lossy' = FALSE /\ obs' = <<FaultEv("loss_off", "")>> /\ nf' = nf + 1
  /\ UNCHANGED <<nd, up, net, pf, clk, fresh>>
OneShot ==
  /\ CanFault            \* (a second one-shot disturbance replaces a pending one, as in the harness)
  /\ \E p \in {q \in {<<"drop">>, <<"dup">>} : q[1] \in Kinds} \cup {<<"delay", d>> : d \in (IF "delay" \in Kinds THEN Delays ELSE {})} :
       /\ pf' = p /\ obs' = <<IF p[1] = "delay" THEN [d |-> p[2]] @@ FaultEv("delay", "") ELSE FaultEv(p[1], "")>>
  /\ nf' = nf + 1
  /\ UNCHANGED <<nd, up, net, lossy, clk, fresh>>
\* the application of the watcher withdraws the auto-subscription of listener LA (stop_find_subscribe_eventgroup); a configuration
\* with a second, overlapping auto-subscription (listener LB, same concrete eventgroup) keeps the subscription through the other one.
\* The call reaches the loop like every harness call; a restarted watcher registers both again.
Unfind ==
  /\ CanFault /\ "unfind" \in Kinds /\ up["wat"] # "down"
  /\ "LA" \in DOMAIN nd["wat"].watch /\ "F1" \in nd["wat"].watch["LA"]
  /\ ~\E i \in DOMAIN net : net[i].e.op = "unwatch"
  /\ net' = AddCallE(net, "wat", [op |-> "unwatch", lst |-> "LA", flt |-> "F1"])
  /\ obs' = <<FaultEv("unfind", "wat")>> /\ nf' = nf + 1
  /\ UNCHANGED <<nd, up, lossy, pf, clk, fresh>>
Fault == (\E x \in Nodes : Crash(x) \/ Restart(x) \/ Stop(x) \/ Start(x)) \/ LossOn \/ LossOff \/ OneShot \/ Unfind

-----------------------------------------------------------------------------
(* --------------------------------- time ---------------------------------- *)
AllIdle == \A x \in Nodes : ~CanStep(x)
Lefts == UNION {{t.left : t \in nd[x].timers} : x \in {y \in Nodes : up[y] # "down"}} \cup {net[i].left : i \in DOMAIN net}
MinOf(S) == CHOOSE m \in S : \A y \in S : m <= y
\* a stack that is down receives nothing: what reaches it is gone
Purge(nt) == SelectSeq(nt, LAMBDA it : ~(it.left = 0 /\ up[it.to] = "down"))
Far == IF Lefts \ {0} = {} THEN 0 ELSE MinOf(Lefts \ {0})       \* the next deadline (0: none)
TickBy(d) ==
  /\ AllIdle /\ d > 0
  /\ nd' = [x \in Nodes |-> IF up[x] = "down" THEN nd[x] ELSE [nd[x] EXCEPT !.timers = {[t EXCEPT !.left = @ - d] : t \in @}]]
  \* (what was deliverable in this instant to a stack that stayed down until its end is gone; what arrives at the beginning
  \*  of the next instant can still be received by a stack restarted at that very instant)
  /\ net' = LET nt == Purge(net) IN [i \in DOMAIN nt |-> [nt[i] EXCEPT !.left = IF @ > d THEN @ - d ELSE 0]]
  /\ clk' = clk + d
  /\ obs' = <<[k |-> "idle"], [k |-> "adv", d |-> d]>>
  /\ fresh' = TRUE
  /\ UNCHANGED <<up, lossy, pf, nf>>
Tick ==
  /\ clk < Horizon
  \* while a disturbance is still possible every instant is visited; afterwards straight to the next deadline
  /\ LET more == nf < MaxFaults /\ clk <= FaultWindow
         d0 == IF more \/ Far = 0 THEN 1 ELSE Far
     IN TickBy(IF clk + d0 > Horizon THEN Horizon - clk ELSE d0)

Next2 == (\E x \in Nodes : NodePoll(x) \/ NodeRun(x)) \/ Fault \/ Tick
Spec2 == Init2 /\ [][Next2]_vars2
=============================================================================
