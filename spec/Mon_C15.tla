---------------------------- MODULE Mon_C15 ----------------------------
(* Property monitor for C15 -- "Queued SD entries are sent exactly once, in order, to the right
   peer, in time".  Alphabet:
     in  queue dst en          announcer.queue_send(en, dst); en carries a unique ghost tag
     out tx dst es             an SD message left the transport (entries without tag are foreign
                               traffic of the announcer itself and are skipped)
     idle, adv d
   Per destination the monitor keeps the queued-but-unsent tags in order with their age.    *)
EXTENDS Naturals, Sequences, FiniteSets, TLC
Range(s) == {s[i] : i \in DOMAIN s}

MonInit(cfg) ==
  [ cfg |-> cfg, pend |-> [d \in Range(cfg.dsts) |-> <<>>],     \* <<tag, age>>, oldest first
    sent |-> {}, bad |-> "", at |-> 0, n |-> 0 ]
Fail(m, clause) == IF m.bad = "" THEN [m EXCEPT !.bad = clause, !.at = m.n] ELSE m
W(m) == m.cfg.collect
Tagged(es) == SelectSeq(es, LAMBDA en : "tag" \in DOMAIN en)
Tags(q) == [i \in DOMAIN q |-> q[i][1]]

\* with a zero timeout every entry must already be gone when the next thing happens
Immediate(m) ==
  IF W(m) = 0 /\ \E d \in DOMAIN m.pend : m.pend[d] # <<>> THEN Fail(m, "not_sent_immediately") ELSE m

Tx(m, e) ==
  LET ts == Tagged(e.es)  n == Len(ts) IN
  IF n = 0 THEN m
  ELSE IF e.dst \notin DOMAIN m.pend THEN Fail(m, "unknown_identity")
  ELSE LET q == m.pend[e.dst] IN
       IF \E i \in DOMAIN ts : ts[i].tag \in m.sent THEN Fail(m, "entry_sent_twice")
       ELSE IF \E i \in DOMAIN ts : \E d \in DOMAIN m.pend \ {e.dst} : ts[i].tag \in Range(Tags(m.pend[d]))
            THEN Fail(m, "entry_sent_to_wrong_destination")
       ELSE IF n > Len(q) \/ [i \in 1..n |-> ts[i].tag] # SubSeq(Tags(q), 1, n)
            THEN Fail(m, "order_or_unqueued_entry")
       ELSE IF W(m) = 0 /\ Len(e.es) # 1 THEN Fail(m, "entries_combined_despite_zero_timeout")
       ELSE [m EXCEPT !.pend[e.dst] = SubSeq(q, n + 1, Len(q)), !.sent = @ \cup {ts[i].tag : i \in DOMAIN ts}]

Adv(m, d) ==
  LET late == \E x \in DOMAIN m.pend : \E i \in DOMAIN m.pend[x] : m.pend[x][i][2] + d > W(m)
      m1   == IF late THEN Fail(m, "not_sent_within_collection_timeout") ELSE m
  IN [m1 EXCEPT !.pend = [x \in DOMAIN @ |-> [i \in DOMAIN @[x] |-> <<@[x][i][1], @[x][i][2] + d>>]]]

MonStep(m0, e) ==
  LET m == [m0 EXCEPT !.n = @ + 1] IN
  CASE e.k = "in" /\ e.op = "queue" ->
         LET m1 == Immediate(m) IN
         IF e.dst \notin DOMAIN m1.pend THEN Fail(m1, "unknown_identity")
         ELSE [m1 EXCEPT !.pend[e.dst] = Append(@, <<e.en.tag, 0>>)]
    [] e.k = "in" /\ e.op # "queue" -> Immediate(m)
    [] e.k = "out" /\ e.op = "tx" -> Tx(m, e)
    [] e.k = "idle" -> Immediate(m)
    [] e.k = "adv"  -> Adv(m, e.d)
    [] e.k = "exc"  -> Fail(m, "exception")
    [] OTHER -> m
=============================================================================
