---------------------------- MODULE Mon_C04 ----------------------------
(* Property monitor for C04 -- "Two SD stacks converge".
     in  fault kind node     kind \in {crash, restart, stop, start, loss_on, loss_off, drop, dup, delay, *_applied}
     out offered / stopped       (the watcher's listener, service of the offering stack)
     out subscribed / unsubscribed   (the offering stack's listener, the watcher's subscription)
     idle, adv
   Whenever the loop(s) are idle and the last disturbance lies at least B = TTL + cyclic period
   (cfg.bound) in the past: the watcher reports "offered" exactly when the offering stack is
   offering, and the offering stack reports "subscribed" exactly when it offers and the watcher
   runs.                                                                                      *)
EXTENDS Naturals, Integers, Sequences, FiniteSets, TLC
Fail(m, clause) == IF m.bad = "" THEN [m EXCEPT !.bad = clause, !.at = m.n] ELSE m

MonInit(cfg) ==
  [ cfg |-> cfg,
    up |-> [srv |-> "run", wat |-> "run"],     \* run / stopped (alive, protocol stopped) / down
    quiet |-> 0, lossy |-> FALSE,
    spoke |-> [srv |-> FALSE, wat |-> FALSE],   \* the current incarnation has sent at least one SD message
    lastW |-> "none", lastS |-> "none",
    bad |-> "", at |-> 0, n |-> 0 ]

Fault(m, e) ==
  LET m1 == [m EXCEPT !.quiet = 0] IN
  CASE e.kind = "crash"   -> [m1 EXCEPT !.up[e.node] = "down",
                                         !.lastW = IF e.node = "wat" THEN "none" ELSE @,
                                         !.lastS = IF e.node = "srv" THEN "none" ELSE @]
    [] e.kind = "restart" -> [m1 EXCEPT !.up[e.node] = "run", !.spoke[e.node] = FALSE]
    [] e.kind = "stop"    -> [m1 EXCEPT !.up[e.node] = IF @ = "down" THEN @ ELSE "stopped"]
    [] e.kind = "start"   -> [m1 EXCEPT !.up[e.node] = IF @ = "down" THEN @ ELSE "run"]
    [] e.kind = "loss_on" -> [m1 EXCEPT !.lossy = TRUE]
    [] e.kind = "loss_off" -> [m1 EXCEPT !.lossy = FALSE]
    [] OTHER -> m1

Offering(m) == m.up.srv = "run"
\* with infinite TTLs nothing can be learnt about a peer that is down and stays silent: the statement
\* then only speaks about restarts (cfg.needAlive)
Converged(m) ==
  IF m.lossy \/ m.quiet < m.cfg.bound THEN m
  ELSE IF m.cfg.needAlive /\ (m.up.srv = "down" \/ m.up.wat = "down" \/ ~m.spoke.srv \/ ~m.spoke.wat) THEN m
  ELSE IF m.up.wat = "run" /\ Offering(m) /\ m.lastW # "offered" THEN Fail(m, "watcher_does_not_see_the_offered_service")
  ELSE IF m.up.wat = "run" /\ ~Offering(m) /\ m.lastW = "offered" THEN Fail(m, "watcher_still_sees_a_service_that_is_not_offered")
  ELSE IF m.up.srv # "down" /\ Offering(m) /\ m.up.wat = "run" /\ m.lastS # "subscribed" THEN Fail(m, "offerer_does_not_see_the_subscription")
  ELSE IF m.up.srv # "down" /\ ~(Offering(m) /\ m.up.wat = "run") /\ m.lastS = "subscribed"
       THEN Fail(m, "offerer_still_sees_a_subscription_that_cannot_exist")
  ELSE m

MonStep(m0, e) ==
  LET m == [m0 EXCEPT !.n = @ + 1] IN
  IF m0.bad # "" THEN m0 ELSE
  CASE e.k = "in" /\ e.op = "fault" -> Fault(m, e)
    [] e.k = "out" /\ e.op \in {"offered", "stopped"} -> [m EXCEPT !.lastW = e.op]
    [] e.k = "out" /\ e.op \in {"subscribed", "unsubscribed"} -> [m EXCEPT !.lastS = e.op]
    [] e.k = "out" /\ e.op = "wire" -> [m EXCEPT !.spoke[e.node] = TRUE]
    [] e.k = "idle" -> Converged(m)
    [] e.k = "adv"  -> [m EXCEPT !.quiet = IF @ + e.d > 100000 THEN 100000 ELSE @ + e.d]
    [] e.k = "exc"  -> Fail(m, "exception")
    [] OTHER -> m
=============================================================================
