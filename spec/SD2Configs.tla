----------------------------- MODULE SD2Configs -----------------------------
(* configurations of the two-stack specification: the set-up and the timing variants of harness/props/c04.py *)
EXTENDS SD2

\* the set-up of harness/net2.py
C04_Match == [F1 |-> {"s1"}, ALL |-> {"s1"}]
C04_Base == [maxId |-> 65535,
             inst |-> [I1 |-> [svc |-> "s1", egs |-> {1}, subs |-> {"s1"}]], ann0 |-> <<"I1">>,
             findMatch |-> [F1 |-> {"s1"}],
             watch0 |-> [L1 |-> {"ALL"}, LA |-> {"F1"}], wkeys0 |-> <<"F1">>, autosub |-> [LA |-> "G1"],
             egs |-> [G1 |-> [ep |-> "l1"]], findTTL |-> 3, randVals |-> {0}] @@ CfgDefault
\* timing configurations of harness/props/c04.py
C04_fin  == [cyclic |-> 4, annTTL |-> 12, collect |-> 0, subTTL |-> 12, refresh |-> 4] @@ C04_Base
C04_fin1 == [cyclic |-> 4, annTTL |-> 12, collect |-> 1, reps |-> 1, base |-> 1, subTTL |-> 12, refresh |-> 4] @@ C04_Base
C04_init == [cyclic |-> 3, annTTL |-> 9, collect |-> 0, initMin |-> 2, initMax |-> 2, reps |-> 2, base |-> 1, subTTL |-> 9, refresh |-> 3] @@ C04_Base
C04_inf  == [cyclic |-> 4, annTTL |-> FOREVER, collect |-> 0, subTTL |-> FOREVER, refresh |-> 0] @@ C04_Base
C04_inf1 == [cyclic |-> 4, annTTL |-> FOREVER, collect |-> 1, subTTL |-> FOREVER, refresh |-> 0] @@ C04_Base
\* both stacks have been up for long: session counters past their first wrap (reboot flag cleared), about to wrap again
C04_wrap == [sess0 |-> <<FALSE, 65532>>] @@ C04_fin
M_wrap == [bound |-> 16, needAlive |-> FALSE]
\* the watcher holds TWO overlapping auto-subscriptions (filters F1: any instance, F2: instance 1) that resolve to the same
\* concrete eventgroup of s1; the application may withdraw the first one (disturbance "unfind")
C04_Match2 == [F1 |-> {"s1"}, F2 |-> {"s1"}, ALL |-> {"s1"}]
C04_two == [watch0 |-> [L1 |-> {"ALL"}, LA |-> {"F1"}, LB |-> {"F2"}], wkeys0 |-> <<"F1", "F2">>, autosub |-> [LA |-> "G1", LB |-> "G1"],
            findMatch |-> [F1 |-> {"s1"}, F2 |-> {"s1"}]] @@ C04_fin
M_two == [bound |-> 16, needAlive |-> FALSE]
TwoKinds == {"crash_srv", "crash_wat", "stop_srv", "stop_wat", "unfind"}
\* infinite TTLs, offers only in the initial and repetition phases (no cyclic offers)
C04_nocyc == [cyclic |-> 0, annTTL |-> FOREVER, collect |-> 0, reps |-> 2, base |-> 1, subTTL |-> FOREVER, refresh |-> 0] @@ C04_Base
M_nocyc == [bound |-> 9, needAlive |-> TRUE]
M_fin  == [bound |-> 16, needAlive |-> FALSE]
M_fin1 == [bound |-> 18, needAlive |-> FALSE]
M_init == [bound |-> 14, needAlive |-> FALSE]
M_inf  == [bound |-> 10, needAlive |-> TRUE]
M_inf1 == [bound |-> 11, needAlive |-> TRUE]
AllKinds == {"crash_srv", "crash_wat", "stop_srv", "stop_wat", "loss", "drop", "dup", "delay"}
NodeKinds == {"crash_srv", "crash_wat", "stop_srv", "stop_wat"}
TwoAllKinds == AllKinds \cup {"unfind"}
\* infinite TTLs: crash of the offering stack is what known finding F1 is about (KNOWN_FINDINGS.jsonl); loss cannot heal
InfKinds == {"crash_wat", "stop_srv", "stop_wat"}
Graceful == {"stop_srv", "stop_wat"}
NoSw == AllOff
\* deviations of the design that the two-stack property must notice (non-vacuity of MonOK)
Sw_StaleTimerOnRefresh == [AllOff EXCEPT !.StaleTimerOnRefresh = TRUE]
Sw_ForeverGetsTimer == [AllOff EXCEPT !.ForeverGetsTimer = TRUE]
Sw_RebootNeedsSmallerId == [AllOff EXCEPT !.RebootNeedsSmallerId = TRUE]
Sw_StopSubNotDeferred == [AllOff EXCEPT !.StopSubNotDeferred = TRUE]
Sw_CancelCollectorsOnStop == [AllOff EXCEPT !.CancelCollectorsOnStop = TRUE]
Sw_IgnoreWhenUnwatched == [AllOff EXCEPT !.IgnoreWhenUnwatched = TRUE]
Sw_AsShipped == AsShipped
Sw_SubStopForgetsList == [AllOff EXCEPT !.SubStopForgetsList = TRUE]
Sw_UnsubRemovesAll == [AllOff EXCEPT !.UnsubRemovesAll = TRUE]
Sw_QueueLatestWins == [AllOff EXCEPT !.QueueLatestWins = TRUE]

=============================================================================
