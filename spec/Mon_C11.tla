---------------------------- MODULE Mon_C11 ----------------------------
(* Property monitor for C11 -- "Every unicast Subscribe gets exactly one correct Ack or Nack".
   in rx (sub entries) / life-cycle inputs;  out tx dst es (ack entries);  idle, adv.
   The expected answer is computed from the inputs alone: matching by the tables of cfg
   (independent statement of the wildcard rule), running state from the life-cycle inputs,
   listener decision = field acc of the entry (the harness listener decides accordingly).  *)
EXTENDS MonAnn

MonInit(cfg) == LifeInit(cfg) @@ GhostInit @@ [pend |-> <<>>]   \* [dst, key, ttl (-1 = either), win, must]
W(m) == m.cfg.collect
AckKey(en) == <<en.svc, en.eg, en.ctr>>

Expect(m, src, en) ==
  LET hit == GHit(m, en)
      ks  == {<<i, src, SubKey(en)>> : i \in hit}
      \* a further Subscribe for a live subscription is a refresh: the listener is not asked again;
      \* in the tick in which the subscription expires both outcomes are acceptable (see MonAnn)
      liveNow == \E k \in ks : GLive(m, k) > 0
      maybe   == \E k \in ks : GLive(m, k) < 0 \/ (GLive(m, k) = 0 /\ k \in m.exp)
  IN
  IF en.ttl # 0
  THEN [dst |-> src, key |-> AckKey(en), win |-> W(m), must |-> TRUE,
        ttl |-> IF m.cl THEN -1 ELSE IF hit = {} THEN 0 ELSE IF en.acc \/ liveNow THEN en.ttl
                ELSE IF maybe THEN -1 ELSE 0]
  ELSE [dst |-> src, key |-> AckKey(en), win |-> W(m), must |-> FALSE, ttl |-> 0]   \* StopSubscribe: no answer
                                                                                    \* required (a Nack for an unknown one is tolerated)
RECURSIVE Entries(_, _, _)
Entries(m, src, es) ==
  IF es = <<>> THEN m
  ELSE LET en == Head(es)
           known == \E i \in Announced(m) : m.run[i] /\ SubMatches(m, i, en)
       IN Entries(GEntry(IF en.ty = "sub" /\ ~(en.ttl = 0 /\ known)
                         THEN [m EXCEPT !.pend = Append(@, Expect(m, src, en))] ELSE m, src, en), src, Tail(es))

\* consume the pending answer matching this ack entry (mandatory ones first)
Consume(m, dst, en) ==
  LET P(must) == {i \in DOMAIN m.pend : m.pend[i].dst = dst /\ m.pend[i].key = AckKey(en) /\ m.pend[i].must = must
                                        /\ (m.pend[i].ttl = -1 \/ m.pend[i].ttl = en.ttl)}
      any == {i \in DOMAIN m.pend : m.pend[i].dst = dst /\ m.pend[i].key = AckKey(en)}
      drop(i) == [m EXCEPT !.pend = SubSeq(@, 1, i - 1) \o SubSeq(@, i + 1, Len(@))]
  IN IF P(TRUE) # {} THEN drop(CHOOSE i \in P(TRUE) : \A j \in P(TRUE) : i <= j)
     ELSE IF P(FALSE) # {} THEN drop(CHOOSE i \in P(FALSE) : \A j \in P(FALSE) : i <= j)
     ELSE IF any # {} THEN Fail(m, IF en.ttl = 0 THEN "nack_for_acceptable_subscribe" ELSE "positive_ack_for_unacceptable_subscribe")
     ELSE Fail(m, "unsolicited_ack")
RECURSIVE Acks(_, _, _)
Acks(m, dst, es) ==
  IF es = <<>> THEN m
  ELSE Acks(IF Head(es).ty = "ack" THEN Consume(m, dst, Head(es)) ELSE m, dst, Tail(es))

Idle(m0) ==
  LET m == Settled(m0) IN
  IF W(m) = 0 /\ \E i \in DOMAIN m.pend : m.pend[i].must THEN Fail(m, "subscribe_not_answered")
  ELSE IF W(m) = 0 THEN [m EXCEPT !.pend = <<>>] ELSE m
Adv(m, d) ==
  LET m1 == IF \E i \in DOMAIN m.pend : m.pend[i].must /\ m.pend[i].win < d THEN Fail(m, "subscribe_not_answered") ELSE m
      keep == SelectSeq(m1.pend, LAMBDA p : p.win >= d)
  IN GAdv([m1 EXCEPT !.pend = [i \in DOMAIN keep |-> [keep[i] EXCEPT !.win = @ - d]]], d)

MonStep(m0, e) ==
  LET m == [m0 EXCEPT !.n = @ + 1] IN
  CASE e.k = "in" /\ e.op = "rx" -> LET m2 == GReboot(m, e) IN IF e.uc /\ ~e.mc THEN Entries(m2, e.src, e.es) ELSE m2
    [] e.k = "in" /\ e.op # "rx" ->
         LET z == Stops(m, e)  m1 == GKill(Life(m, e), LAMBDA x : x[1] \in z)
         IN IF e.op = "connlost" THEN GKill(m1, LAMBDA x : TRUE) ELSE m1
    [] e.k = "out" /\ e.op = "tx" -> Acks(m, e.dst, e.es)
    [] e.k = "out" /\ e.op = "cl_applied" -> IF e.comp = "ann" THEN Settled(m) ELSE m
    [] e.k = "idle" -> Idle(m)
    [] e.k = "adv"  -> Adv(m, e.d)
    [] e.k = "exc"  -> Fail(m, "exception")
    [] OTHER -> m
=============================================================================
