------------------------------ MODULE MC_C05 ------------------------------
(* Mode 1 for C05: discovery part of SD.tla composed with the property monitor Mon_C05.
   The monitor folds over exactly the events the step appended to s.outs.               *)
EXTENDS SD
M == INSTANCE Mon_C05

VARIABLE mon
mcvars == <<s, mon>>

MonCfg == [srcs |-> Cfg.srcs, svcs |-> Cfg.svcs, lsts |-> Cfg.lsts,
           match |-> [f \in DOMAIN Match |-> SetToSeq(Match[f])]]

RECURSIVE Fold(_, _)
Fold(m, es) == IF es = <<>> THEN m ELSE Fold(M!MonStep(m, Head(es)), Tail(es))

MCInit == Init /\ mon = M!MonInit(MonCfg)
MCNext == Next /\ mon' = Fold(mon, s'.outs)
MCSpec == MCInit /\ [][MCNext]_mcvars

MonOK   == mon.bad = ""
IdleOK  == IsIdle(s) => M!Idle(mon).bad = ""
\* the monitor's ghost agrees with the store whenever the loop is idle (strengthens C05)
StoreTruth == IsIdle(s) => \A k \in s.store["found"] : mon.live[k] # 0

\* ---- constants of the configurations (cfg files substitute these) ----
InputsOf(srcs, svcs, ttls) ==
  {[op |-> "rx", src |-> a, mc |-> TRUE, reboot |-> r, uc |-> TRUE,
    es |-> <<[ty |-> "offer", svc |-> v, ttl |-> t]>>] : a \in srcs, v \in svcs, t \in ttls, r \in BOOLEAN}
WatchOps(lsts, flts) ==
  {[op |-> o, lst |-> l, flt |-> f] : o \in {"watch", "unwatch"}, l \in lsts, f \in flts}

Q_Match  == [F2 |-> {"s1"}, ALL |-> {"s1", "s2"}]
Q_Cfg    == [srcs |-> <<"a1">>, svcs |-> <<"s1", "s2">>, lsts |-> <<"L1", "L2">>,
             watch0 |-> [L1 |-> {"ALL"}, L2 |-> {"F2"}]] @@ CfgDefault
Q_Inputs == InputsOf({"a1"}, {"s1", "s2"}, {0, 1, 2, FOREVER})

T_Cfg    == [srcs |-> <<"a1", "a2">>, svcs |-> <<"s1", "s2">>, lsts |-> <<"L1", "L2">>,
             watch0 |-> [L1 |-> {"ALL"}, L2 |-> {}]] @@ CfgDefault
T_Inputs == InputsOf({"a1", "a2"}, {"s1", "s2"}, {0, 1, 2, FOREVER})
              \cup WatchOps({"L2"}, {"F2"}) \cup {[op |-> "connlost"]}

W_Cfg    == [srcs |-> <<"a1">>, svcs |-> <<"s1">>, lsts |-> <<"L1", "L2">>,
             watch0 |-> [L1 |-> {"ALL"}, L2 |-> {}]] @@ CfgDefault
W_Inputs == InputsOf({"a1"}, {"s1"}, {0, 2, FOREVER}) \cup WatchOps({"L1"}, {"ALL"}) \cup WatchOps({"L2"}, {"F2"})

NoSw == AllOff
Shipped == AsShipped
SwD1 == [NoSw EXCEPT !.DeferExpiryNotify = TRUE, !.DeferHandleOffer = TRUE]
SwD2 == [NoSw EXCEPT !.DeferStopAllNotify = TRUE]
SwD3 == [NoSw EXCEPT !.DeferRebootFanout = TRUE]
SwD23 == [NoSw EXCEPT !.DeferStopAllNotify = TRUE, !.DeferRebootFanout = TRUE, !.DeferHandleOffer = TRUE]
SwD13 == [NoSw EXCEPT !.DeferHandleOffer = TRUE]
SwD10 == [NoSw EXCEPT !.IgnoreWhenUnwatched = TRUE]
SwD11 == [NoSw EXCEPT !.DeferWatchReplay = TRUE]
=============================================================================
