---------------------------- MODULE Mon_C07 ----------------------------
(* Property monitor for C07 -- "Peer reboot is detected exactly, per sender and per channel".
   Alphabet:  in rx src mc sid rb            a decodable SD message arrived
              out ret val                    return value of check_received (direct driving)
              out reboot comp a              reboot_detected reached component comp for address a
              idle
   The rule of the statement is evaluated here on the previous message with the same
   (sender, channel) only; nothing else can trigger or mask a detection.                    *)
EXTENDS Naturals, Sequences, FiniteSets, TLC
Range(s) == {s[i] : i \in DOMAIN s}
Comps == {"disc", "sub", "ann"}

MonInit(cfg) ==
  [ cfg  |-> cfg,
    prev |-> [k \in Range(cfg.srcs) \X BOOLEAN |-> <<FALSE, FALSE, 0>>],   \* known, flag, id
    exp  |-> FALSE,                 \* does the message being processed reveal a reboot ?
    src  |-> "", open |-> FALSE,    \* a message is being processed (until the next input / idle)
    got  |-> [c \in Comps |-> 0], ret |-> 0,
    direct |-> cfg.direct,          \* TRUE: judged on the return value; FALSE: on the component calls
    bad |-> "", at |-> 0, n |-> 0 ]

Fail(m, clause) == IF m.bad = "" THEN [m EXCEPT !.bad = clause, !.at = m.n] ELSE m

\* close the message being processed: were the detections delivered exactly as expected ?
Close(m) ==
  IF ~m.open THEN m
  ELSE LET m1 == [m EXCEPT !.open = FALSE, !.got = [c \in Comps |-> 0], !.ret = 0] IN
       IF m.direct
       THEN IF m.ret # 1 THEN Fail(m1, "no_or_multiple_return_values") ELSE m1
       ELSE IF m.exp /\ \E c \in Comps : m.got[c] = 0 THEN Fail(m1, "detection_not_delivered")
            ELSE IF m.exp /\ \E c \in Comps : m.got[c] > 1 THEN Fail(m1, "detection_delivered_twice")
            ELSE IF ~m.exp /\ \E c \in Comps : m.got[c] > 0 THEN Fail(m1, "spurious_detection")
            ELSE m1

Rx(m0, e) ==
  LET m   == Close(m0)
      k   == <<e.src, e.mc>>
      old == m.prev[k]
      exp == old[1] /\ e.rb /\ (~old[2] \/ old[3] >= e.sid)
  IN [m EXCEPT !.prev[k] = <<TRUE, e.rb, e.sid>>, !.exp = exp, !.src = e.src, !.open = TRUE]

Ret(m, e) ==
  IF ~m.open THEN Fail(m, "return_without_message")
  ELSE IF e.val # m.exp THEN Fail(m, IF m.exp THEN "reboot_missed" ELSE "false_reboot")
  ELSE [m EXCEPT !.ret = @ + 1]

Reboot(m, e) ==
  IF ~m.open \/ e.a # m.src THEN Fail(m, "detection_for_wrong_sender")
  ELSE IF e.comp \notin Comps THEN Fail(m, "unknown_identity")
  ELSE IF ~m.exp THEN Fail(m, "spurious_detection")
  ELSE [m EXCEPT !.got[e.comp] = @ + 1]

Idle(m) == Close(m)

MonStep(m0, e) ==
  LET m == [m0 EXCEPT !.n = @ + 1] IN
  CASE e.k = "in" /\ e.op = "rx" -> Rx(m, e)
    [] e.k = "in" /\ e.op # "rx" -> Close(m)
    [] e.k = "out" /\ e.op = "ret" -> Ret(m, e)
    [] e.k = "out" /\ e.op = "reboot" -> Reboot(m, e)
    [] e.k = "idle" -> Idle(m)
    [] e.k = "exc" -> Fail(m, "exception")
    [] OTHER -> m
=============================================================================
