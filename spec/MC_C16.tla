------------------------------ MODULE MC_C16 ------------------------------
(* walks the complete decision table of Service.tla, one state per row, checking the laws *)
EXTENDS Service
VARIABLE row
Init == row \in Table
Next == UNCHANGED row
Spec == Init /\ [][Next]_row
LawsHold == Laws(row)

=============================================================================
