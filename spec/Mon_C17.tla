---------------------------- MODULE Mon_C17 ----------------------------
(* Property monitor for C17 -- "Event notifications reach exactly the current subscribers,
   correctly addressed".
     in  eg_create | eg_sub ep | eg_unsub ep | eg_set ev val | eg_replace vals | eg_notify evs | eg_badsub kind
     out ntx dst sid ev val [hdr: svc mid iv mt]   one notification message left the transport
     out nak                                       a subscription was refused (NakSubscription)
     idle, adv
   Ghost: the subscribed endpoints, the current values and, per destination, the next session
   id.  Expectations (one per endpoint and event) are created by a new subscription (initial
   notification), by an explicit request, or by the cyclic schedule; everything belonging to
   one tick leaves in that tick.  Membership or value changes inside the tick of a round make
   both readings acceptable (DESIGN §9).                                                     *)
EXTENDS Naturals, Integers, Sequences, FiniteSets, TLC
Range(s) == {s[i] : i \in DOMAIN s}
Fail(m, clause) == IF m.bad = "" THEN [m EXCEPT !.bad = clause, !.at = m.n] ELSE m
Put(f, k, v) == [x \in DOMAIN f \cup {k} |-> IF x = k THEN v ELSE f[x]]

MonInit(cfg) ==
  [ cfg |-> cfg, subs |-> {}, values |-> cfg.values0,
    events |-> cfg.events,    \* the keys of `values`, in order (the attribute may be replaced as a whole: eg_replace)
    nxt  |-> <<>>,            \* dst -> next session id
    pend |-> <<>>,            \* [dst, ev, vals (acceptable values), must]
    rounds |-> <<>>,          \* explicit rounds requested in this tick (late subscribers of the tick may be included)
    moved |-> {},             \* endpoints whose membership changed in this tick
    phase |-> "off", left |-> 0,      \* cyclic task: off / wait (for clients) / sleep (left ticks) ; loose after an ambiguous tick
    wokeNow |-> FALSE,        \* the cyclic task was woken (wait -> sleep) in this very tick
    cycDue |-> FALSE, cycGot |-> {},   \* the cyclic round is due in this tick; <<endpoint, event>> it has reached so far
    nakOwed |-> 0,
    bad |-> "", at |-> 0, n |-> 0 ]

Events(m) == m.events
Expect(m, ep, evs, must) ==
  [m EXCEPT !.pend = @ \o [i \in DOMAIN evs |-> [dst |-> ep, ev |-> evs[i], vals |-> {m.values[evs[i]]}, must |-> must]]]
RECURSIVE ExpectAll(_, _, _, _)
ExpectAll(m, eps, evs, must) ==
  IF eps = {} THEN m ELSE LET ep == CHOOSE x \in eps : TRUE IN ExpectAll(Expect(m, ep, evs, must), eps \ {ep}, evs, must)
RECURSIVE Late(_, _, _)
Late(m, ep, rs) == IF rs = <<>> THEN m ELSE Late(Expect(m, ep, Head(rs), FALSE), ep, Tail(rs))

Sub(m, ep) ==
  LET m1 == [m EXCEPT !.subs = @ \cup {ep}, !.moved = @ \cup {ep}]
      m2 == Expect(m1, ep, Events(m), TRUE)                      \* initial notification: every event, current value
      m3 == Late(m2, ep, m.rounds)
  IN IF m.phase = "wait" THEN [m3 EXCEPT !.phase = "sleep", !.left = m.cfg.interval, !.wokeNow = TRUE] ELSE m3     \* has_clients wakes the cyclic task
\* (the last subscriber leaves in the tick in which the first one woke the cyclic task: whether the task saw the event set --
\*  it may not even have reached its wait() yet -- cannot be told from outside: loose until a round resynchronises)
Unsub(m, ep) ==
  [m EXCEPT !.subs = @ \ {ep}, !.moved = @ \cup {ep},
            !.phase = IF m.wokeNow /\ m.subs \ {ep} = {} THEN "loose" ELSE @,
            !.pend = [i \in DOMAIN @ |-> IF @[i].dst = ep THEN [@[i] EXCEPT !.must = FALSE] ELSE @[i]]]
SetVal(m, ev, v) ==
  [m EXCEPT !.values[ev] = v, !.pend = [i \in DOMAIN @ |-> IF @[i].ev = ev THEN [@[i] EXCEPT !.vals = @ \cup {v}] ELSE @[i]]]
\* the application replaces the whole `values` mapping (vals: <<event, value>> pairs in the order of the new mapping): from now on
\* initial notifications and cyclic rounds carry exactly the new events.  (The drivers do this at the beginning of a tick of its own;
\* should anything still be pending, both readings are accepted.)
Replace(m, vals) ==
  LET evs == [i \in DOMAIN vals |-> vals[i][1]]
      f   == [ev \in {vals[i][1] : i \in DOMAIN vals} |-> vals[CHOOSE i \in DOMAIN vals : vals[i][1] = ev][2]]
      Loosen(p) == [p EXCEPT !.must = FALSE, !.vals = @ \cup (IF p.ev \in DOMAIN f THEN {f[p.ev]} ELSE {})]
  IN [m EXCEPT !.events = evs, !.values = f, !.pend = [i \in DOMAIN @ |-> Loosen(@[i])]]
Notify(m, evs) ==
  IF m.subs = {} THEN m
  ELSE [ExpectAll(m, m.subs, evs, TRUE) EXCEPT !.rounds = Append(@, evs)]

\* the tick of a cyclic round is over: exactly the endpoints subscribed at that instant got it, once per
\* event (endpoints that came or went in this very tick: both readings are accepted)
CycSettle(m) ==
  LET sure == m.subs \ m.moved
      m1 == [m EXCEPT !.cycDue = FALSE, !.cycGot = {}]
  IN IF \E ep \in sure : \E i \in DOMAIN Events(m) : <<ep, Events(m)[i]>> \notin m.cycGot THEN Fail(m1, "cyclic_round_missing")
     ELSE IF m.moved # {} /\ (m.subs = {} \/ m.subs \subseteq m.moved) THEN [m1 EXCEPT !.phase = "loose"]
     ELSE IF m.subs = {} THEN [m1 EXCEPT !.phase = "wait"]
     ELSE [m1 EXCEPT !.phase = "sleep", !.left = m.cfg.interval]
\* a notification that no explicit expectation asks for, in the tick of a cyclic round
CycNtx(m, e) ==
  IF e.dst \notin m.subs \cup m.moved THEN Fail(m, "notification_to_non_subscriber")
  ELSE IF <<e.dst, e.ev>> \in m.cycGot THEN Fail(m, "cyclic_round_sent_twice")
  ELSE IF e.val # m.values[e.ev] THEN Fail(m, "payload_not_the_current_value")
  ELSE [m EXCEPT !.cycGot = @ \cup {<<e.dst, e.ev>>}]

Step1(m, x) == IF x >= m.cfg.maxId THEN 1 ELSE x + 1
Ntx(m, e) ==
  LET want == IF e.dst \in DOMAIN m.nxt THEN m.nxt[e.dst] ELSE 1
      m1 == [m EXCEPT !.nxt = Put(@, e.dst, Step1(m, want))]
      C  == {i \in DOMAIN m.pend : m.pend[i].dst = e.dst /\ m.pend[i].ev = e.ev}
      CM == {i \in C : m.pend[i].must}       \* owed ones are served before optional ones
      j  == IF CM # {} THEN CHOOSE i \in CM : \A x \in CM : i <= x ELSE CHOOSE i \in C : \A x \in C : i <= x
  IN IF e.ev \notin DOMAIN m.values THEN Fail(m1, "notification_for_an_event_that_is_not_in_values")
     ELSE IF e.sid = 0 THEN Fail(m1, "session_id_zero")
     ELSE IF e.sid # want THEN Fail(m1, "session_id_not_consecutive")
     ELSE IF e.svc # m.cfg.svc \/ e.mid # 32768 + e.ev \/ e.iv # m.cfg.major \/ e.mt # 2 THEN Fail(m1, "notification_header_wrong")
     ELSE IF C = {} /\ m.cycDue THEN CycNtx(m1, e)
     ELSE IF C = {} THEN Fail(m1, IF e.dst \in m.subs THEN "unexpected_notification" ELSE "notification_to_non_subscriber")
     ELSE IF e.val \notin m.pend[j].vals THEN Fail(m1, "payload_not_the_current_value")
     ELSE [m1 EXCEPT !.pend = SubSeq(@, 1, j - 1) \o SubSeq(@, j + 1, Len(@))]

Idle(m) ==
  IF \E i \in DOMAIN m.pend : m.pend[i].must THEN Fail(m, "notification_missing")
  ELSE IF m.nakOwed > 0 THEN Fail(m, "bad_subscription_not_refused")
  ELSE LET m1 == [m EXCEPT !.pend = <<>>] IN
       IF m.cycDue THEN CycSettle(m1)
       \* loose: a complete round to exactly the current subscribers in a tick without membership changes resynchronises
       ELSE IF m.phase = "loose" /\ m.cycGot # {}
       THEN IF m.moved = {} /\ m.subs # {} /\ m.cycGot = {<<ep, Events(m)[i]>> : ep \in m.subs, i \in DOMAIN Events(m)}
            THEN [m1 EXCEPT !.phase = "sleep", !.left = m.cfg.interval, !.cycGot = {}]
            ELSE [m1 EXCEPT !.cycGot = {}]
       ELSE m1
Adv(m0, d) ==
  LET m == [Idle(m0) EXCEPT !.rounds = <<>>, !.moved = {}, !.wokeNow = FALSE] IN
  IF m.phase # "sleep" THEN m
  ELSE IF m.left < d THEN Fail(m, "cyclic_round_missing")
  ELSE IF m.left = d THEN [m EXCEPT !.left = 0, !.cycDue = TRUE, !.phase = "round"]
  ELSE [m EXCEPT !.left = @ - d]

MonStep(m0, e) ==
  LET m == [m0 EXCEPT !.n = @ + 1] IN
  IF m0.bad # "" THEN m0 ELSE
  CASE e.k = "in" /\ e.op = "eg_create" -> [m EXCEPT !.phase = IF m.cfg.interval > 0 THEN "wait" ELSE "off"]
    [] e.k = "in" /\ e.op = "eg_sub"    -> Sub(m, e.ep)
    [] e.k = "in" /\ e.op = "eg_unsub"  -> Unsub(m, e.ep)
    [] e.k = "in" /\ e.op = "eg_set"    -> SetVal(m, e.ev, e.val)
    [] e.k = "in" /\ e.op = "eg_replace" -> Replace(m, e.vals)
    [] e.k = "in" /\ e.op = "eg_notify" -> Notify(m, e.evs)
    [] e.k = "in" /\ e.op = "eg_badsub" -> [m EXCEPT !.nakOwed = @ + 1]
    [] e.k = "in" /\ e.op = "burn" ->      \* n session ids of this destination were consumed unobserved
         LET cur == IF e.dst \in DOMAIN m.nxt THEN m.nxt[e.dst] ELSE 1
         IN [m EXCEPT !.nxt = Put(@, e.dst, ((cur - 1 + e.n) % m.cfg.maxId) + 1)]
    [] e.k = "out" /\ e.op = "nak" -> IF m.nakOwed > 0 THEN [m EXCEPT !.nakOwed = @ - 1] ELSE Fail(m, "valid_subscription_refused")
    [] e.k = "out" /\ e.op = "ntx" -> IF m.phase = "loose" /\ ~\E i \in DOMAIN m.pend : m.pend[i].dst = e.dst /\ m.pend[i].ev = e.ev
                                      THEN [m EXCEPT !.nxt = Put(@, e.dst, Step1(m, IF e.dst \in DOMAIN @ THEN @[e.dst] ELSE 1)),
                                                     !.cycGot = IF <<e.dst, e.ev>> \in @ THEN {<<"", 0>>} ELSE @ \cup {<<e.dst, e.ev>>}]
                                      ELSE Ntx(m, e)
    [] e.k = "idle" -> Idle(m)
    [] e.k = "adv"  -> Adv(m, e.d)
    [] e.k = "exc"  -> Fail(m, "exception")
    [] OTHER -> m
=============================================================================
