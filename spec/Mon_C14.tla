---------------------------- MODULE Mon_C14 ----------------------------
(* Property monitor for C14 -- "Client subscription messages mirror the requested subscription
   set".   in sub_start / sub_stop / subscribe g srv / unsubscribe g srv;
           out tx dst es  (Subscribe entries: [ty "sub", g, ttl, eps]);  idle, adv.
   The monitor plays the server: it applies the Subscribe / StopSubscribe entries it is sent, per
   destination and in the order sent, and compares what it holds with what is requested.      *)
EXTENDS Naturals, Integers, Sequences, FiniteSets, TLC
Range(s) == {s[i] : i \in DOMAIN s}
Fail(m, clause) == IF m.bad = "" THEN [m EXCEPT !.bad = clause, !.at = m.n] ELSE m

MonInit(cfg) ==
  [ cfg |-> cfg, alive |-> FALSE,
    req  |-> {},        \* <<srv, g>> currently requested
    ever |-> {},        \* <<srv, g>> requested at some time
    held |-> {},        \* <<srv, g>> held by the simulated servers
    since |-> <<>>,     \* <<srv, g>> -> ticks since the last Subscribe (while requested and running)
    bad |-> "", at |-> 0, n |-> 0 ]
Put(f, k, v) == [x \in DOMAIN f \cup {k} |-> IF x = k THEN v ELSE f[x]]
Drop(f, ks) == [x \in DOMAIN f \ ks |-> f[x]]

Entry(m, dst, en) ==
  IF en.ty # "sub" THEN m
  ELSE IF en.g \notin DOMAIN m.cfg.egs THEN Fail(m, "unknown_identity")
  ELSE LET k == <<dst, en.g>> IN
  IF en.ttl = 0 THEN [m EXCEPT !.held = @ \ {k}]
  ELSE LET m1 == IF en.ttl # m.cfg.subTTL THEN Fail(m, "subscribe_with_wrong_ttl")
                 ELSE IF en.eps # <<m.cfg.egs[en.g].ep>> THEN Fail(m, "endpoint_option_wrong")
                 ELSE IF k \notin m.ever THEN Fail(m, "subscribe_sent_to_server_never_requested")
                 ELSE m
       IN [m1 EXCEPT !.held = @ \cup {k}, !.since = IF k \in DOMAIN @ THEN [@ EXCEPT ![k] = 0] ELSE @]
RECURSIVE Entries(_, _, _)
Entries(m, dst, es) == IF es = <<>> THEN m ELSE Entries(Entry(m, dst, Head(es)), dst, Tail(es))

Api(m, e) ==
  CASE e.op = "sub_start" -> IF m.alive THEN m ELSE [m EXCEPT !.alive = TRUE, !.since = [k \in m.req |-> 0]]
    [] e.op = "sub_stop"  -> [m EXCEPT !.alive = FALSE, !.since = <<>>]
    [] e.op = "subscribe" -> LET k == <<e.srv, e.g>> IN
                             [m EXCEPT !.req = @ \cup {k}, !.ever = @ \cup {k},
                                       !.since = IF m.alive THEN Put(@, k, 0) ELSE @]
    [] e.op = "unsubscribe" -> LET k == <<e.srv, e.g>> IN [m EXCEPT !.req = @ \ {k}, !.since = Drop(@, {k})]
    [] OTHER -> m

Idle(m) ==
  LET want == IF m.alive THEN m.req ELSE {} IN
  IF \E k \in m.held : k \notin want THEN Fail(m, IF m.alive THEN "server_holds_unrequested_eventgroup" ELSE "server_holds_after_stop")
  ELSE IF \E k \in want : k \notin m.held THEN Fail(m, "requested_eventgroup_not_held")
  ELSE m
Adv(m, d) ==
  LET m1 == [m EXCEPT !.since = [k \in DOMAIN @ |-> @[k] + d]] IN
  IF m.cfg.refresh > 0 /\ \E k \in DOMAIN m1.since : m1.since[k] > m.cfg.refresh THEN Fail(m1, "refresh_interval_exceeded") ELSE m1

MonStep(m0, e) ==
  LET m == [m0 EXCEPT !.n = @ + 1] IN
  IF m0.bad # "" THEN m0 ELSE
  CASE e.k = "in" -> Api(m, e)
    [] e.k = "out" /\ e.op = "tx" -> Entries(m, e.dst, e.es)
    [] e.k = "idle" -> Idle(m)
    [] e.k = "adv"  -> Adv(m, e.d)
    [] e.k = "exc"  -> Fail(m, "exception")
    [] OTHER -> m
=============================================================================
