------------------------------ MODULE MC_C07 ------------------------------
(* Mode 1 for C07: the receive path of SD.tla (session bookkeeping, reboot fan-out) with rx
   inputs that prescribe flag and session id themselves, composed with Mon_C07.  The input
   budget is unbounded: TLC explores the reachable (memory x monitor) space to closure.      *)
EXTENDS SD
M == INSTANCE Mon_C07
VARIABLE mon
mcvars == <<s, mon>>
RECURSIVE Fold(_, _)
Fold(m, es) == IF es = <<>> THEN m ELSE Fold(M!MonStep(m, Head(es)), Tail(es))
MCInit == Init /\ mon = M!MonInit([srcs |-> Cfg.srcs, direct |-> FALSE])
MCNext == Next /\ mon' = Fold(mon, s'.outs)
MCSpec == MCInit /\ [][MCNext]_mcvars
MonOK  == mon.bad = ""
IdleOK == IsIdle(s) => M!Idle(mon).bad = ""
\* the memory of the model and the monitor's "previous message" coincide
Agree  == \A k \in DOMAIN s.sessIn : mon.prev[k] = <<TRUE, s.sessIn[k][1], s.sessIn[k][2]>>
View   == <<[s EXCEPT !.ev = 0, !.outs = <<>>], mon.prev, mon.exp, mon.open, mon.got, mon.bad>>

RxSet(srcs, chans, sids) ==
  {[op |-> "rx", k |-> "in", src |-> a, mc |-> c, sid |-> i, rb |-> f, uc |-> TRUE, es |-> <<>>]
     : a \in srcs, c \in chans, i \in sids, f \in BOOLEAN}
Q_Cfg == [srcs |-> <<"a1">>, seeReboot |-> TRUE] @@ CfgDefault
Q_Inputs == RxSet({"a1"}, BOOLEAN, {1, 2, 3, 32767, 65534, 65535})
T_Cfg == [srcs |-> <<"a1", "a2">>, seeReboot |-> TRUE] @@ CfgDefault
T_Inputs == RxSet({"a1", "a2"}, BOOLEAN, {1, 2, 3, 32767, 65534, 65535})
NoMatch == <<>>
NoSw == AllOff
SwD3 == [AllOff EXCEPT !.DeferRebootFanout = TRUE]
SwGE == [AllOff EXCEPT !.RebootNeedsSmallerId = TRUE]
=============================================================================
