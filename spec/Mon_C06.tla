---------------------------- MODULE Mon_C06 ----------------------------
(* Property monitor for C06 -- "Server subscription records are truthful; acknowledged
   subscriptions are held".   in rx (sub entries, reboot evidence by the rule of C07) and
   life-cycle inputs;  out subscribed(acc) / unsubscribed  inst sub src;  idle, adv.
   Ghost `live`: remaining life of every accepted subscription, from the inputs alone.      *)
EXTENDS MonAnn

MonInit(cfg) == LifeInit(cfg) @@ GhostInit @@ [last |-> <<>>]     \* <<inst, src, key>> -> "subscribed" / "unsubscribed"

RECURSIVE Entries(_, _, _)
Entries(m, src, es) == IF es = <<>> THEN m ELSE Entries(GEntry(m, src, Head(es)), src, Tail(es))
Rx(m, e) == LET m2 == GReboot(m, e) IN IF e.uc /\ ~e.mc THEN Entries(m2, e.src, e.es) ELSE m2

Api(m, e) ==
  LET z  == Stops(m, e)
      m1 == GKill(Life(m, e), LAMBDA x : x[1] \in z)
  IN IF e.op = "connlost" THEN GKill(m1, LAMBDA x : TRUE) ELSE m1

Notify(m, e) ==
  LET k == <<e.inst, e.src, SubKey(e.sub)>>  was == Get(m.last, k, "unsubscribed") IN
  IF e.op = "subscribed"
  THEN IF ~e.acc THEN (IF was = "subscribed" THEN Fail(m, "live_subscription_offered_to_listener_again") ELSE m)
       ELSE IF was = "subscribed" THEN Fail(m, "alternation_subscribed_twice")
       ELSE [m EXCEPT !.last = Put(@, k, "subscribed")]
  ELSE IF was # "subscribed" THEN Fail(m, "alternation_unsubscribed_without_subscribed")
       ELSE [m EXCEPT !.last = Put(@, k, "unsubscribed")]

Idle(m0) ==
  LET m == Settled(m0)
      K == DOMAIN m.last \cup DOMAIN m.live
  IN IF \E k \in K : Get(m.last, k, "unsubscribed") = "subscribed" /\ Get(m.live, k, 0) = 0
     THEN Fail(m, "idle_subscribed_but_not_live")
     ELSE IF \E k \in K : Get(m.last, k, "unsubscribed") # "subscribed" /\ Get(m.live, k, 0) > 0
     THEN Fail(m, "idle_live_but_not_subscribed")
     \* an ambiguous entry (see MonAnn) is settled by what the implementation reports
     ELSE [m EXCEPT !.live = [k \in DOMAIN @ |-> IF @[k] >= 0 THEN @[k]
                                                ELSE IF Get(m.last, k, "unsubscribed") = "subscribed" THEN 0 - @[k] ELSE 0]]

Adv(m, d) == GAdv(m, d)

MonStep(m0, e) ==
  LET m == [m0 EXCEPT !.n = @ + 1] IN
  CASE e.k = "in" /\ e.op = "rx" -> Rx(m, e)
    [] e.k = "in" /\ e.op # "rx" -> Api(m, e)
    [] e.k = "out" /\ e.op \in {"subscribed", "unsubscribed"} ->
         IF e.inst \in Insts(m) THEN Notify(m, e) ELSE Fail(m, "unknown_identity")
    [] e.k = "out" /\ e.op = "cl_applied" -> IF e.comp = "ann" THEN Settled(m) ELSE m
    [] e.k = "idle" -> Idle(m)
    [] e.k = "adv"  -> Adv(m, e.d)
    [] e.k = "exc"  -> Fail(m, "exception")
    [] OTHER -> m
=============================================================================
