---------------------------- MODULE Mon_C06 ----------------------------
(* Property monitor for C06 -- "Server subscription records are truthful; acknowledged
   subscriptions are held".   in rx (sub entries, reboot evidence by the rule of C07) and
   life-cycle inputs;  out subscribed(acc) / unsubscribed  inst sub src;  idle, adv.
   Ghost `live`: remaining life of every accepted subscription, from the inputs alone.      *)
EXTENDS MonAnn

MonInit(cfg) ==
  LifeInit(cfg) @@ [ sess |-> <<>>,      \* <<src, mc>> -> <<flag, id>>
                     live |-> <<>>,      \* <<inst, src, key>> -> remaining life
                     last |-> <<>> ]     \* <<inst, src, key>> -> "subscribed" / "unsubscribed"
SubKey(x) == <<x.svc, x.eg, x.ctr, x.eps>>
Kill(m, P(_)) == [m EXCEPT !.live = [k \in DOMAIN @ |-> IF P(k) THEN 0 ELSE @[k]]]

RECURSIVE SetLive(_, _, _)
SetLive(m, ks, v) == IF ks = {} THEN m ELSE LET k == CHOOSE k \in ks : TRUE IN SetLive([m EXCEPT !.live = Put(@, k, v)], ks \ {k}, v)

Entry(m, src, en) ==
  IF en.ty # "sub" THEN m
  ELSE LET hit == {i \in Announced(m) : m.run[i] /\ SubMatches(m, i, en)}
           ks  == {<<i, src, SubKey(en)>> : i \in hit}
       IN IF en.ttl = 0 THEN SetLive(m, ks, 0)
          ELSE IF m.cl THEN m                                  \* will be wiped by the pending connection loss
          ELSE SetLive(m, {k \in ks : ~Rejected(m, en) \/ Get(m.live, k, 0) > 0}, en.ttl)
RECURSIVE Entries(_, _, _)
Entries(m, src, es) == IF es = <<>> THEN m ELSE Entries(Entry(m, src, Head(es)), src, Tail(es))

Rx(m, e) ==
  LET k    == <<e.src, e.mc>>
      reb  == k \in DOMAIN m.sess /\ e.rb /\ (~m.sess[k][1] \/ m.sess[k][2] >= e.sid)
      m1   == [m EXCEPT !.sess = Put(@, k, <<e.rb, e.sid>>)]
      m2   == IF reb THEN Kill(m1, LAMBDA x : x[2] = e.src) ELSE m1      \* applied before the entries of that message
  IN IF e.uc /\ ~e.mc THEN Entries(m2, e.src, e.es) ELSE m2

Api(m, e) ==
  LET z  == Stops(m, e)
      m1 == Kill(Life(m, e), LAMBDA x : x[1] \in z)
  IN IF e.op = "connlost" THEN Kill(m1, LAMBDA x : TRUE) ELSE m1

Notify(m, e) ==
  LET k == <<e.inst, e.src, SubKey(e.sub)>>  was == Get(m.last, k, "unsubscribed") IN
  IF e.op = "subscribed"
  THEN IF ~e.acc THEN (IF was = "subscribed" THEN Fail(m, "live_subscription_offered_to_listener_again") ELSE m)
       ELSE IF was = "subscribed" THEN Fail(m, "alternation_subscribed_twice")
       ELSE [m EXCEPT !.last = Put(@, k, "subscribed")]
  ELSE IF was # "subscribed" THEN Fail(m, "alternation_unsubscribed_without_subscribed")
       ELSE [m EXCEPT !.last = Put(@, k, "unsubscribed")]

Idle(m0) ==
  LET m == Settled(m0)
      K == DOMAIN m.last \cup DOMAIN m.live
  IN IF \E k \in K : Get(m.last, k, "unsubscribed") = "subscribed" /\ Get(m.live, k, 0) = 0
     THEN Fail(m, "idle_subscribed_but_not_live")
     ELSE IF \E k \in K : Get(m.last, k, "unsubscribed") # "subscribed" /\ Get(m.live, k, 0) > 0
     THEN Fail(m, "idle_live_but_not_subscribed")
     ELSE m

Adv(m, d) == [m EXCEPT !.live = [k \in DOMAIN @ |-> IF @[k] = FOREVER \/ @[k] = 0 THEN @[k] ELSE IF @[k] > d THEN @[k] - d ELSE 0]]

MonStep(m0, e) ==
  LET m == [m0 EXCEPT !.n = @ + 1] IN
  CASE e.k = "in" /\ e.op = "rx" -> Rx(m, e)
    [] e.k = "in" /\ e.op # "rx" -> Api(m, e)
    [] e.k = "out" /\ e.op \in {"subscribed", "unsubscribed"} ->
         IF e.inst \in Insts(m) THEN Notify(m, e) ELSE Fail(m, "unknown_identity")
    [] e.k = "out" /\ e.op = "cl_applied" -> IF e.comp = "ann" THEN Settled(m) ELSE m
    [] e.k = "idle" -> Idle(m)
    [] e.k = "adv"  -> Adv(m, e.d)
    [] e.k = "exc"  -> Fail(m, "exception")
    [] OTHER -> m
=============================================================================
