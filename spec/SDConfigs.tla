------------------------------ MODULE SDConfigs ------------------------------
(* Configurations (environment alphabets, timing variants, deviation-switch records) of SD.tla used
   by the exhaustive checks (MC_Ann.tla, spec/cfg/*.cfg) and by the behaviour generator (SDSim.tla). *)
EXTENDS SD

\* ------------------------------------------------------------------ configurations
Q(d, n) == [op |-> "queue", dst |-> d, en |-> [ty |-> "offer", svc |-> "g", tag |-> n, ttl |-> 5]]
Peers2 == <<"a1", "a2">>
\* C15: a tag is queued at most once (tags 1..MaxEv are handed out in order by TagNext)
C15_Cfg(c) == [collect |-> c, peers |-> Peers2, inst |-> [I1 |-> [svc |-> "s1", egs |-> {1}, subs |-> {"s1"}]],
               ann0 |-> <<"I1">>, findMatch |-> [f1 |-> {"s1"}], timerPhase |-> TRUE] @@ CfgDefault
C15_Inputs == {Q(d, 0) : d \in {"mc", "a1", "a2"}} \cup {[op |-> "ann_start"], [op |-> "ann_stop"]}
C15_Cfg0 == C15_Cfg(0)
C15_Cfg1 == C15_Cfg(1)
\* ---- C10 / C12: offer lifecycle and find answers
Find(src, mc, flt) == [op |-> "rx", src |-> src, mc |-> mc, reboot |-> FALSE, uc |-> TRUE,
                       es |-> <<[ty |-> "find", svc |-> flt, ttl |-> 3]>>]
I1only == [I1 |-> [svc |-> "s1", egs |-> {1}, subs |-> {"s1"}]]
I12    == [I1 |-> [svc |-> "s1", egs |-> {1}, subs |-> {"s1"}], I2 |-> [svc |-> "s3", egs |-> {1}, subs |-> {"s3"}]]
FM     == [f1 |-> {"s1"}, f3 |-> {"s3"}, fz |-> {}, fa |-> {"s1", "s3"}]
LifeOps == {[op |-> "ann_start"], [op |-> "ann_stop"]}
C10_Inputs == LifeOps \cup {Find("a1", m, "f1") : m \in BOOLEAN}
C12_Inputs == LifeOps \cup {Find("a1", m, f) : m \in BOOLEAN, f \in {"f1", "fa", "fz"}}
\* timing variants: (collect, initMin, initMax, reps, cyclic, rrMin, rrMax)
TV(c, i0, i1, r, cy, r0, r1) ==
  [collect |-> c, initMin |-> i0, initMax |-> i1, reps |-> r, base |-> 1, cyclic |-> cy, rrMin |-> r0, rrMax |-> r1,
   randVals |-> {0, 1, 2}, peers |-> Peers2, findMatch |-> FM, stopTwice |-> TRUE]
C10_A == TV(0, 0, 0, 0, 4, 0, 0) @@ [inst |-> I1only, ann0 |-> <<"I1">>] @@ CfgDefault
C10_B == TV(1, 0, 0, 1, 4, 1, 2) @@ [inst |-> I1only, ann0 |-> <<"I1">>] @@ CfgDefault
C10_C == TV(0, 1, 2, 2, 0, 0, 0) @@ [inst |-> I1only, ann0 |-> <<"I1">>] @@ CfgDefault
C10_D == TV(1, 1, 2, 0, 0, 1, 1) @@ [inst |-> I1only, ann0 |-> <<"I1">>] @@ CfgDefault
C12_A == TV(0, 0, 0, 0, 4, 0, 0) @@ [inst |-> I12, ann0 |-> <<"I1", "I2">>] @@ CfgDefault
C12_B == TV(1, 0, 1, 0, 4, 1, 2) @@ [inst |-> I12, ann0 |-> <<"I1", "I2">>] @@ CfgDefault
\* two instances of one service id: one wildcard find matches both (also the configuration replayed into the real code)
I14    == [I1 |-> [svc |-> "s1", egs |-> {1}, subs |-> {"s1"}], I4 |-> [svc |-> "s2", egs |-> {1}, subs |-> {"s2"}]]
C12_S  == [TV(1, 0, 0, 1, 4, 1, 2) EXCEPT !.findMatch = [f1 |-> {"s1", "s2"}, f1x |-> {"s1"}, fz |-> {}]]
          @@ [inst |-> I14, ann0 |-> <<"I1", "I4">>] @@ CfgDefault
C12_SInputs == LifeOps \cup {Find("a1", m, f) : m \in BOOLEAN, f \in {"f1", "f1x", "fz"}}
\* ---- C06 / C11: subscriptions
Sub(src, mc, reb, svc, eg, acc, ttl) ==
  [op |-> "rx", src |-> src, mc |-> mc, reboot |-> reb, uc |-> TRUE,
   es |-> <<[ty |-> "sub", svc |-> svc, eg |-> eg, ctr |-> 0, eps |-> <<"e1">>, ttl |-> ttl, acc |-> acc]>>]
SubInputs(srcs, egs, ctrs, ttls) ==
  {Sub(a, FALSE, r, "s1", g, c, t) : a \in srcs, r \in BOOLEAN, g \in egs, c \in ctrs, t \in ttls}
  \cup {Sub(a, TRUE, FALSE, "s1", 1, TRUE, 2) : a \in srcs}
C06_Inputs == LifeOps \cup SubInputs({"a1"}, {1}, BOOLEAN, {0, 1, 2, FOREVER}) \cup {[op |-> "connlost"]}
C11_Inputs == LifeOps \cup SubInputs({"a1"}, {1, 3}, BOOLEAN, {0, 2}) \cup {Sub("a1", FALSE, FALSE, "s3", 1, TRUE, 2)}
C06_A == TV(0, 0, 0, 0, 4, 0, 0) @@ [inst |-> I1only, ann0 |-> <<"I1">>] @@ CfgDefault
C06_B == TV(1, 0, 0, 0, 4, 0, 0) @@ [inst |-> I1only, ann0 |-> <<"I1">>] @@ CfgDefault
\* ---- C14: subscriber
SubOps(gs, srvs) == {[op |-> o, g |-> g, srv |-> a] : o \in {"subscribe", "unsubscribe"}, g \in gs, a \in srvs}
                    \cup {[op |-> "sub_start"], [op |-> "sub_stop"]}
C14_Inputs == SubOps({"G1", "G2"}, {"a1", "a2"})
\* ... and calls that the application queues with call_soon (they run among the library's own callbacks of the next iteration)
C14_InputsD == SubOps({"G1"}, {"a1"}) \cup {[op |-> "defer", e |-> i] : i \in {j \in SubOps({"G1"}, {"a1"}) : j.op = "unsubscribe"}}       \* (only stop-subscribes are queued: no duplicate subscribe can result)
C14_A == [egs |-> [G1 |-> [ep |-> "l1"], G2 |-> [ep |-> "l2"]], subTTL |-> 6, refresh |-> 2, peers |-> Peers2] @@ CfgDefault
C14_B == [egs |-> [G1 |-> [ep |-> "l1"], G2 |-> [ep |-> "l2"]], subTTL |-> FOREVER, refresh |-> 0, peers |-> Peers2] @@ CfgDefault
\* ---- C13: find task
Offer(src, svc, ttl, reb) == [op |-> "rx", src |-> src, mc |-> TRUE, reboot |-> reb, uc |-> TRUE,
                              es |-> <<[ty |-> "offer", svc |-> svc, ttl |-> ttl]>>]
C13_Match == [F1 |-> {"s1", "s2"}, F3 |-> {"s3"}]
C13_Inputs == {[op |-> "disc_start"], [op |-> "disc_stop"]}
              \cup {Offer("a1", v, t, FALSE) : v \in {"s1", "s3"}, t \in {0, 1, FOREVER}}
              \cup {Offer("a1", "s2", 2, TRUE)}
C13_A == [watch0 |-> [L1 |-> {"F1"}, L2 |-> {"F3"}], initMin |-> 0, initMax |-> 1, reps |-> 2, base |-> 1,
          randVals |-> {0, 1}, peers |-> Peers2] @@ CfgDefault
C13_B == [watch0 |-> [L1 |-> {"F1"}, L2 |-> {"F3"}], initMin |-> 1, initMax |-> 1, reps |-> 1, base |-> 2,
          randVals |-> {0, 1}, peers |-> Peers2] @@ CfgDefault
\* ---- C17: event notifications
EgOps(eps, evs) == {[op |-> o, ep |-> p] : o \in {"eg_sub", "eg_unsub"}, p \in eps}
                   \cup {[op |-> "eg_set", ev |-> v, val |-> x] : v \in evs, x \in {7, 8}}
C17_InputsX == EgOps({"e1", "e2"}, {1}) \cup {[op |-> "eg_notify", evs |-> q, oneshot |-> o] : q \in {<<1>>, <<1, 2>>}, o \in BOOLEAN}
C17_InputsC == EgOps({"e1", "e2"}, {1}) \cup {[op |-> "eg_create"]}
C17_X == [maxId |-> 65535, events |-> <<1, 2>>, values0 |-> (1 :> 7 @@ 2 :> 9), egInterval |-> 0, peers |-> Peers2] @@ CfgDefault
C17_C == [events |-> <<1>>, values0 |-> (1 :> 7), egInterval |-> 2, peers |-> Peers2] @@ CfgDefault
NoMatch == <<>>
NoSw == AllOff
SwOneShot == [AllOff EXCEPT !.NotifyOnceConsumesIterator = TRUE]
SwFindAll == [AllOff EXCEPT !.FindIgnoresFound = TRUE]
SwSubOrder == [AllOff EXCEPT !.StopSubNotDeferred = TRUE]
SwD3 == [AllOff EXCEPT !.DeferRebootFanout = TRUE]
SwD4 == [AllOff EXCEPT !.FindAnswerIgnoresStop = TRUE]
SwD5 == [AllOff EXCEPT !.NonCyclicKeepsAnswering = TRUE, !.FindAnswerIgnoresStop = TRUE]
SwD6 == [AllOff EXCEPT !.StopTwiceRaises = TRUE]
SwCancel == [AllOff EXCEPT !.CancelCollectorsOnStop = TRUE]
SwAck == [AllOff EXCEPT !.AckBeforeListener = TRUE]
=============================================================================
