------------------------------ MODULE MC_C19 ------------------------------
(* all pairs of descriptions over {c1, c2, ANY} per field: one state per pair, the laws on each *)
EXTENDS Match
VARIABLES a, b
Init == a \in Desc /\ b \in Desc
Next == UNCHANGED <<a, b>>
Spec == Init /\ [][Next]_<<a, b>>
LawsHold == Laws(a, b)
=============================================================================
