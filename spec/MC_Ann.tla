------------------------------ MODULE MC_Ann ------------------------------
(* Mode 1 for the announcer properties (C06, C10, C11, C12, C15): the announcer part of SD.tla
   composed with ONE property monitor chosen by the constant Mon (a cfg file per property).  *)
EXTENDS SDConfigs
CONSTANT Mon
M06 == INSTANCE Mon_C06
M10 == INSTANCE Mon_C10
M11 == INSTANCE Mon_C11
M12 == INSTANCE Mon_C12
M15 == INSTANCE Mon_C15
M13 == INSTANCE Mon_C13
M14 == INSTANCE Mon_C14
M17 == INSTANCE Mon_C17
VARIABLE mon
mcvars == <<s, mon>>

MonCfg == [k \in {"initMin", "initMax", "reps", "base", "cyclic", "annTTL", "collect", "rrMin", "rrMax"} |-> Cfg[k]]
          @@ [insts |-> SetToSeq(DOMAIN Cfg.inst),
              inst |-> [i \in DOMAIN Cfg.inst |-> [svc |-> Cfg.inst[i].svc, egs |-> SetToSeq(Cfg.inst[i].egs),
                                                     subs |-> SetToSeq(Cfg.inst[i].subs)]],
              findMatch |-> [f \in DOMAIN Cfg.findMatch |-> SetToSeq(Cfg.findMatch[f])],
              ann0 |-> Cfg.ann0, peers |-> Cfg.peers,
              dsts |-> <<"mc">> \o Cfg.peers,
              egs |-> Cfg.egs, subTTL |-> Cfg.subTTL, refresh |-> Cfg.refresh, findTTL |-> Cfg.findTTL,
              watch0 |-> SetToSeq(UNION Range(Cfg.watch0) \ {"ALL"}),
              events |-> Cfg.events, values0 |-> Cfg.values0, interval |-> Cfg.egInterval,
              match |-> [f \in DOMAIN Match |-> SetToSeq(Match[f])], svcs |-> SetToSeq(UNION Range(Match))]
Step(m, e) == CASE Mon = "C06" -> M06!MonStep(m, e) [] Mon = "C10" -> M10!MonStep(m, e)
                [] Mon = "C11" -> M11!MonStep(m, e) [] Mon = "C12" -> M12!MonStep(m, e)
                [] Mon = "C15" -> M15!MonStep(m, e) [] Mon = "C13" -> M13!MonStep(m, e) [] Mon = "C14" -> M14!MonStep(m, e) [] Mon = "C17" -> M17!MonStep(m, [svc |-> 4369, mid |-> 32768 + (IF "ev" \in DOMAIN e THEN e.ev ELSE 0), iv |-> 1, mt |-> 2] @@ e)
MInit == CASE Mon = "C06" -> M06!MonInit(MonCfg) [] Mon = "C10" -> M10!MonInit(MonCfg)
           [] Mon = "C11" -> M11!MonInit(MonCfg) [] Mon = "C12" -> M12!MonInit(MonCfg)
           [] Mon = "C15" -> M15!MonInit(MonCfg) [] Mon = "C13" -> M13!MonInit(MonCfg) [] Mon = "C14" -> M14!MonInit(MonCfg) [] Mon = "C17" -> M17!MonInit(MonCfg @@ [svc |-> 4369, major |-> 1, maxId |-> Cfg.maxId])
RECURSIVE Fold(_, _)
Fold(m, es) == IF es = <<>> THEN m ELSE Fold(Step(m, Head(es)), Tail(es))
MCInit == Init /\ mon = MInit
MCNext == Next /\ mon' = Fold(mon, s'.outs)
MCSpec == MCInit /\ [][MCNext]_mcvars
\* the event counter of the monitor only serves diagnostics: hidden, or cyclic offers make the space infinite
View   == <<s, [mon EXCEPT !.n = 0, !.at = 0]>>
MonOK  == mon.bad = ""
IdleOK == IsIdle(s) => Step(mon, [k |-> "idle"]).bad = ""

=============================================================================
