------------------------------ MODULE MC_Ann ------------------------------
(* Mode 1 for the announcer properties (C06, C10, C11, C12, C15): the announcer part of SD.tla
   composed with ONE property monitor chosen by the constant Mon (a cfg file per property).  *)
EXTENDS SD
CONSTANT Mon
M06 == INSTANCE Mon_C06
M10 == INSTANCE Mon_C10
M11 == INSTANCE Mon_C11
M12 == INSTANCE Mon_C12
M15 == INSTANCE Mon_C15
M13 == INSTANCE Mon_C13
M14 == INSTANCE Mon_C14
M17 == INSTANCE Mon_C17
VARIABLE mon
mcvars == <<s, mon>>

MonCfg == [k \in {"initMin", "initMax", "reps", "base", "cyclic", "annTTL", "collect", "rrMin", "rrMax"} |-> Cfg[k]]
          @@ [insts |-> SetToSeq(DOMAIN Cfg.inst),
              inst |-> [i \in DOMAIN Cfg.inst |-> [svc |-> Cfg.inst[i].svc, egs |-> SetToSeq(Cfg.inst[i].egs),
                                                     subs |-> SetToSeq(Cfg.inst[i].subs)]],
              findMatch |-> [f \in DOMAIN Cfg.findMatch |-> SetToSeq(Cfg.findMatch[f])],
              ann0 |-> Cfg.ann0, peers |-> Cfg.peers,
              dsts |-> <<"mc">> \o Cfg.peers,
              egs |-> Cfg.egs, subTTL |-> Cfg.subTTL, refresh |-> Cfg.refresh, findTTL |-> Cfg.findTTL,
              watch0 |-> SetToSeq(UNION Range(Cfg.watch0) \ {"ALL"}),
              events |-> Cfg.events, values0 |-> Cfg.values0, interval |-> Cfg.egInterval,
              match |-> [f \in DOMAIN Match |-> SetToSeq(Match[f])], svcs |-> SetToSeq(UNION Range(Match))]
Step(m, e) == CASE Mon = "C06" -> M06!MonStep(m, e) [] Mon = "C10" -> M10!MonStep(m, e)
                [] Mon = "C11" -> M11!MonStep(m, e) [] Mon = "C12" -> M12!MonStep(m, e)
                [] Mon = "C15" -> M15!MonStep(m, e) [] Mon = "C13" -> M13!MonStep(m, e) [] Mon = "C14" -> M14!MonStep(m, e) [] Mon = "C17" -> M17!MonStep(m, [svc |-> 4369, mid |-> 32768 + (IF "ev" \in DOMAIN e THEN e.ev ELSE 0), iv |-> 1, mt |-> 2] @@ e)
MInit == CASE Mon = "C06" -> M06!MonInit(MonCfg) [] Mon = "C10" -> M10!MonInit(MonCfg)
           [] Mon = "C11" -> M11!MonInit(MonCfg) [] Mon = "C12" -> M12!MonInit(MonCfg)
           [] Mon = "C15" -> M15!MonInit(MonCfg) [] Mon = "C13" -> M13!MonInit(MonCfg) [] Mon = "C14" -> M14!MonInit(MonCfg) [] Mon = "C17" -> M17!MonInit(MonCfg @@ [svc |-> 4369, major |-> 1, maxId |-> Cfg.maxId])
RECURSIVE Fold(_, _)
Fold(m, es) == IF es = <<>> THEN m ELSE Fold(Step(m, Head(es)), Tail(es))
MCInit == Init /\ mon = MInit
MCNext == Next /\ mon' = Fold(mon, s'.outs)
MCSpec == MCInit /\ [][MCNext]_mcvars
\* the event counter of the monitor only serves diagnostics: hidden, or cyclic offers make the space infinite
View   == <<s, [mon EXCEPT !.n = 0, !.at = 0]>>
MonOK  == mon.bad = ""
IdleOK == IsIdle(s) => Step(mon, [k |-> "idle"]).bad = ""

\* ------------------------------------------------------------------ configurations
Q(d, n) == [op |-> "queue", dst |-> d, en |-> [ty |-> "offer", svc |-> "g", tag |-> n, ttl |-> 5]]
Peers2 == <<"a1", "a2">>
\* C15: a tag is queued at most once (tags 1..MaxEv are handed out in order by TagNext)
C15_Cfg(c) == [collect |-> c, peers |-> Peers2, inst |-> [I1 |-> [svc |-> "s1", egs |-> {1}, subs |-> {"s1"}]],
               ann0 |-> <<"I1">>, findMatch |-> [f1 |-> {"s1"}], timerPhase |-> TRUE] @@ CfgDefault
C15_Inputs == {Q(d, 0) : d \in {"mc", "a1", "a2"}} \cup {[op |-> "ann_start"], [op |-> "ann_stop"]}
C15_Cfg0 == C15_Cfg(0)
C15_Cfg1 == C15_Cfg(1)
\* ---- C10 / C12: offer lifecycle and find answers
Find(src, mc, flt) == [op |-> "rx", src |-> src, mc |-> mc, reboot |-> FALSE, uc |-> TRUE,
                       es |-> <<[ty |-> "find", svc |-> flt, ttl |-> 3]>>]
I1only == [I1 |-> [svc |-> "s1", egs |-> {1}, subs |-> {"s1"}]]
I12    == [I1 |-> [svc |-> "s1", egs |-> {1}, subs |-> {"s1"}], I2 |-> [svc |-> "s3", egs |-> {1}, subs |-> {"s3"}]]
FM     == [f1 |-> {"s1"}, f3 |-> {"s3"}, fz |-> {}, fa |-> {"s1", "s3"}]
LifeOps == {[op |-> "ann_start"], [op |-> "ann_stop"]}
C10_Inputs == LifeOps \cup {Find("a1", m, "f1") : m \in BOOLEAN}
C12_Inputs == LifeOps \cup {Find("a1", m, f) : m \in BOOLEAN, f \in {"f1", "fa", "fz"}}
\* timing variants: (collect, initMin, initMax, reps, cyclic, rrMin, rrMax)
TV(c, i0, i1, r, cy, r0, r1) ==
  [collect |-> c, initMin |-> i0, initMax |-> i1, reps |-> r, base |-> 1, cyclic |-> cy, rrMin |-> r0, rrMax |-> r1,
   randVals |-> {0, 1, 2}, peers |-> Peers2, findMatch |-> FM, stopTwice |-> TRUE]
C10_A == TV(0, 0, 0, 0, 4, 0, 0) @@ [inst |-> I1only, ann0 |-> <<"I1">>] @@ CfgDefault
C10_B == TV(1, 0, 0, 1, 4, 1, 2) @@ [inst |-> I1only, ann0 |-> <<"I1">>] @@ CfgDefault
C10_C == TV(0, 1, 2, 2, 0, 0, 0) @@ [inst |-> I1only, ann0 |-> <<"I1">>] @@ CfgDefault
C10_D == TV(1, 1, 2, 0, 0, 1, 1) @@ [inst |-> I1only, ann0 |-> <<"I1">>] @@ CfgDefault
C12_A == TV(0, 0, 0, 0, 4, 0, 0) @@ [inst |-> I12, ann0 |-> <<"I1", "I2">>] @@ CfgDefault
C12_B == TV(1, 0, 1, 0, 4, 1, 2) @@ [inst |-> I12, ann0 |-> <<"I1", "I2">>] @@ CfgDefault
\* ---- C06 / C11: subscriptions
Sub(src, mc, reb, svc, eg, acc, ttl) ==
  [op |-> "rx", src |-> src, mc |-> mc, reboot |-> reb, uc |-> TRUE,
   es |-> <<[ty |-> "sub", svc |-> svc, eg |-> eg, ctr |-> 0, eps |-> <<"e1">>, ttl |-> ttl, acc |-> acc]>>]
SubInputs(srcs, egs, ctrs, ttls) ==
  {Sub(a, FALSE, r, "s1", g, c, t) : a \in srcs, r \in BOOLEAN, g \in egs, c \in ctrs, t \in ttls}
  \cup {Sub(a, TRUE, FALSE, "s1", 1, TRUE, 2) : a \in srcs}
C06_Inputs == LifeOps \cup SubInputs({"a1"}, {1}, BOOLEAN, {0, 1, 2, FOREVER}) \cup {[op |-> "connlost"]}
C11_Inputs == LifeOps \cup SubInputs({"a1"}, {1, 3}, BOOLEAN, {0, 2}) \cup {Sub("a1", FALSE, FALSE, "s3", 1, TRUE, 2)}
C06_A == TV(0, 0, 0, 0, 4, 0, 0) @@ [inst |-> I1only, ann0 |-> <<"I1">>] @@ CfgDefault
C06_B == TV(1, 0, 0, 0, 4, 0, 0) @@ [inst |-> I1only, ann0 |-> <<"I1">>] @@ CfgDefault
\* ---- C14: subscriber
SubOps(gs, srvs) == {[op |-> o, g |-> g, srv |-> a] : o \in {"subscribe", "unsubscribe"}, g \in gs, a \in srvs}
                    \cup {[op |-> "sub_start"], [op |-> "sub_stop"]}
C14_Inputs == SubOps({"G1", "G2"}, {"a1", "a2"})
C14_A == [egs |-> [G1 |-> [ep |-> "l1"], G2 |-> [ep |-> "l2"]], subTTL |-> 6, refresh |-> 2, peers |-> Peers2] @@ CfgDefault
C14_B == [egs |-> [G1 |-> [ep |-> "l1"], G2 |-> [ep |-> "l2"]], subTTL |-> FOREVER, refresh |-> 0, peers |-> Peers2] @@ CfgDefault
\* ---- C13: find task
Offer(src, svc, ttl, reb) == [op |-> "rx", src |-> src, mc |-> TRUE, reboot |-> reb, uc |-> TRUE,
                              es |-> <<[ty |-> "offer", svc |-> svc, ttl |-> ttl]>>]
C13_Match == [F1 |-> {"s1", "s2"}, F3 |-> {"s3"}]
C13_Inputs == {[op |-> "disc_start"], [op |-> "disc_stop"]}
              \cup {Offer("a1", v, t, FALSE) : v \in {"s1", "s3"}, t \in {0, 1, FOREVER}}
              \cup {Offer("a1", "s2", 2, TRUE)}
C13_A == [watch0 |-> [L1 |-> {"F1"}, L2 |-> {"F3"}], initMin |-> 0, initMax |-> 1, reps |-> 2, base |-> 1,
          randVals |-> {0, 1}, peers |-> Peers2] @@ CfgDefault
C13_B == [watch0 |-> [L1 |-> {"F1"}, L2 |-> {"F3"}], initMin |-> 1, initMax |-> 1, reps |-> 1, base |-> 2,
          randVals |-> {0, 1}, peers |-> Peers2] @@ CfgDefault
\* ---- C17: event notifications
EgOps(eps, evs) == {[op |-> o, ep |-> p] : o \in {"eg_sub", "eg_unsub"}, p \in eps}
                   \cup {[op |-> "eg_set", ev |-> v, val |-> x] : v \in evs, x \in {7, 8}}
C17_InputsX == EgOps({"e1", "e2"}, {1}) \cup {[op |-> "eg_notify", evs |-> q] : q \in {<<1>>, <<1, 2>>}}
C17_InputsC == EgOps({"e1", "e2"}, {1}) \cup {[op |-> "eg_create"]}
C17_X == [maxId |-> 65535, events |-> <<1, 2>>, values0 |-> (1 :> 7 @@ 2 :> 9), egInterval |-> 0, peers |-> Peers2] @@ CfgDefault
C17_C == [events |-> <<1>>, values0 |-> (1 :> 7), egInterval |-> 2, peers |-> Peers2] @@ CfgDefault
NoMatch == <<>>
NoSw == AllOff
SwOneShot == [AllOff EXCEPT !.NotifyOnceConsumesIterator = TRUE]
SwFindAll == [AllOff EXCEPT !.FindIgnoresFound = TRUE]
SwSubOrder == [AllOff EXCEPT !.StopSubNotDeferred = TRUE]
SwD3 == [AllOff EXCEPT !.DeferRebootFanout = TRUE]
SwD4 == [AllOff EXCEPT !.FindAnswerIgnoresStop = TRUE]
SwD5 == [AllOff EXCEPT !.NonCyclicKeepsAnswering = TRUE, !.FindAnswerIgnoresStop = TRUE]
SwD6 == [AllOff EXCEPT !.StopTwiceRaises = TRUE]
SwCancel == [AllOff EXCEPT !.CancelCollectorsOnStop = TRUE]
SwAck == [AllOff EXCEPT !.AckBeforeListener = TRUE]
=============================================================================
