------------------------------- MODULE Stream -------------------------------
(* C18: reading SOME/IP messages from a byte stream (SOMEIPHeader.read over an
   asyncio.StreamReader: readexactly(header), shared header validation, readexactly(body))
   yields, for EVERY segmentation of the stream into chunks, exactly what decoding the
   concatenated bytes yields.  Abstract wire format: a header of H = 2 bytes <<valid, n>>
   followed by n body bytes; valid = 0 is a header that datagram decoding rejects.
   TLC enumerates every stream of the configuration and every way of cutting it.           *)
EXTENDS Naturals, Sequences, FiniteSets, TLC

CONSTANTS MaxMsgs, MaxBody,
          ShortReadIsEof   \* spec mutant: a partially arrived header is taken for the end of the stream
H == 2
Msg(v, n) == <<v, n>> \o [i \in 1..n |-> 7]
RECURSIVE Cat(_)
Cat(ss) == IF ss = <<>> THEN <<>> ELSE Head(ss) \o Cat(Tail(ss))
\* all streams: up to MaxMsgs messages with valid or invalid headers, cut short at every position
Whole == UNION {{Cat(ms) : ms \in [1..k -> {Msg(v, n) : v \in {0, 1}, n \in 0..MaxBody}]} : k \in 0..MaxMsgs}
Prefixes(w) == {SubSeq(w, 1, c) : c \in 0..Len(w)}
Streams == UNION {Prefixes(w) : w \in Whole}

\* what decoding the concatenated bytes message by message yields
RECURSIVE Expected(_)
Expected(b) ==
  IF Len(b) < H THEN <<"incomplete">>
  ELSE IF b[1] = 0 THEN <<"parse">>
  ELSE IF Len(b) < H + b[2] THEN <<"incomplete">>
  ELSE <<SubSeq(b, 1, H + b[2])>> \o Expected(SubSeq(b, H + b[2] + 1, Len(b)))

VARIABLES whole,   \* the complete stream (chosen initially)
          rest,    \* bytes not yet delivered by the transport
          buf,     \* StreamReader buffer
          eof,     \* feed_eof() happened
          pc,      \* reader: "hdr" | "body" | "done"
          need,    \* body bytes of the message being read
          hdrb,    \* its header
          out      \* results so far
vars == <<whole, rest, buf, eof, pc, need, hdrb, out>>

Init == /\ whole \in Streams /\ rest = whole /\ buf = <<>> /\ eof = FALSE
        /\ pc = "hdr" /\ need = 0 /\ hdrb = <<>> /\ out = <<>>
\* the transport delivers the next chunk (any size) / the end of the stream
Feed == /\ rest # <<>> /\ \E n \in 1..Len(rest) : buf' = buf \o SubSeq(rest, 1, n) /\ rest' = SubSeq(rest, n + 1, Len(rest))
        /\ UNCHANGED <<whole, eof, pc, need, hdrb, out>>
Eof  == /\ rest = <<>> /\ ~eof /\ eof' = TRUE /\ UNCHANGED <<whole, rest, buf, pc, need, hdrb, out>>
\* the reader task runs whenever it can make progress (it may also lag behind: interleaves freely with Feed)
ReadHdr ==
  /\ pc = "hdr"
  /\ \/ /\ Len(buf) >= H
        /\ IF buf[1] = 0
           THEN out' = Append(out, "parse") /\ pc' = "done" /\ UNCHANGED <<need, hdrb, buf>>
           ELSE /\ hdrb' = SubSeq(buf, 1, H) /\ need' = buf[2] /\ pc' = "body"
                /\ buf' = SubSeq(buf, H + 1, Len(buf)) /\ UNCHANGED out
     \/ /\ Len(buf) < H /\ (eof \/ (ShortReadIsEof /\ buf # <<>>)) /\ out' = Append(out, "incomplete") /\ pc' = "done" /\ UNCHANGED <<need, hdrb, buf>>
  /\ UNCHANGED <<whole, rest, eof>>
ReadBody ==
  /\ pc = "body"
  /\ \/ /\ Len(buf) >= need
        /\ out' = Append(out, hdrb \o SubSeq(buf, 1, need)) /\ buf' = SubSeq(buf, need + 1, Len(buf)) /\ pc' = "hdr"
     \/ /\ Len(buf) < need /\ eof /\ out' = Append(out, "incomplete") /\ pc' = "done" /\ UNCHANGED buf
  /\ UNCHANGED <<whole, rest, eof, need, hdrb>>
Next == Feed \/ Eof \/ ReadHdr \/ ReadBody
Spec == Init /\ [][Next]_vars

\* whatever the segmentation and the interleaving of reader and transport: same results, same order
Agrees == pc = "done" => out = Expected(whole)
\* ... and at every moment the results so far are a prefix of them (no truncated message is ever emitted)
Prefix == Len(out) <= Len(Expected(whole)) /\ \A i \in DOMAIN out : out[i] = Expected(whole)[i]
\* the reader always finishes once the stream has ended
Finishes == (eof /\ ~ENABLED ReadHdr /\ ~ENABLED ReadBody) => pc = "done"
=============================================================================
