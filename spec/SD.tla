-------------------------------- MODULE SD --------------------------------
(* ONE pysomeip service-discovery stack (operators: SDCore.tla) on its event loop, with an
   environment that may inject any input of `Inputs` at any poll: Poll / Run / Tick, one action
   per event-loop callback (DESIGN §3).                                                       *)
EXTENDS SDCore

CONSTANTS
  Inputs,      \* set of environment inputs (records with field op) that may be injected
  MaxEv,       \* budget of environment inputs per behaviour
  MaxIdle,     \* ticks that may pass while no timer is pending (bounds idle waiting)
  MaxPerPoll   \* inputs that may arrive in one poll

VARIABLE s
vars == <<s>>

Init == s = InitRec

\* Poll: the iteration boundary.  I/O that arrived first, then due timers in ANY order.
Poll ==
  /\ s.todo = 0
  /\ \E ins \in {q \in UNION {[1..n -> Inputs] : n \in 0..MaxPerPoll} : Len(q) + s.ev <= MaxEv} :
     \E tq \in Perms(DueCopies(s)) :
       /\ ins # <<>> \/ s.ready # <<>> \/ Due(s) # {}
       /\ AllApplicable(s, ins)
       \* (I/O arriving while the loop has nothing to run: the loop was idle at this point -- observable)
       /\ LET s1  == Arrive([s EXCEPT !.outs = IF IsIdle(s) THEN <<[k |-> "idle"]>> ELSE <<>>, !.ready = <<>>], ins)
              io  == s1.ready
              tcb == TimerCbs(tq)
          IN \E ord \in (IF Cfg.timerPhase THEN Merges(Len(io), Len(tcb)) ELSE {[i \in 1..(Len(io) + Len(tcb)) |-> i]}) :
               LET all == io \o tcb
                   s2  == [s1 EXCEPT !.ready = s.ready \o [i \in DOMAIN all |-> all[ord[i]]], !.timers = @ \ Due(s)]
               IN s' = [s2 EXCEPT !.todo = Len(s2.ready)]

Run ==
  /\ s.todo > 0
  /\ LET c  == Head(s.ready)
         s0 == [s EXCEPT !.ready = Tail(@), !.todo = @ - 1, !.outs = <<>>]
     IN \E ch \in Cfg.randVals, pk \in Cfg.epOrders : s' = [Effect([s0 EXCEPT !.ch = ch, !.pick = pk], c) EXCEPT !.ch = 0, !.pick = <<>>]

\* nothing ready, nothing due: the loop is idle; time passes -- one tick, or straight to the next
\* deadline (the environment can therefore act just before, at and after every deadline)
MinLeft(st) == CHOOSE m \in {x.left : x \in st.timers} : \A x \in st.timers : m <= x.left
Tick ==
  /\ IsIdle(s)
  /\ s.timers # {} \/ (s.idle < MaxIdle /\ s.ev < MaxEv)
  /\ \E d \in (IF s.timers = {} THEN {1}
               ELSE IF MinLeft(s) <= 3 THEN {1, MinLeft(s)}
               ELSE {MinLeft(s) - 1, MinLeft(s)}) :      \* far deadline: land just before it, or on it
       s' = [s EXCEPT !.timers = {[x EXCEPT !.left = @ - d] : x \in @},
                      !.idle = IF s.timers = {} THEN @ + 1 ELSE @,
                      !.outs = <<[k |-> "idle"], [k |-> "adv", d |-> d]>>]

Next == Poll \/ Run \/ Tick
Spec == Init /\ [][Next]_vars
=============================================================================
