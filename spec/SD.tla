-------------------------------- MODULE SD --------------------------------
(* System specification of the pysomeip service-discovery stack (someip/sd.py) at the
   granularity of ONE asyncio event-loop callback per step (DESIGN §3).

   The whole stack is one record `s`; every callback is a pure operator  s -> s'  so that
   synchronous call chains of the implementation (handle_offer -> TimedStore.refresh ->
   _notify_service_offered -> listener) compose as ordinary operator application, while
   everything the implementation defers (call_soon / call_later / tasks) goes through the
   loop model below.  Nondeterminism is confined to the environment (which input arrives at
   which poll), to the order of timers with equal deadlines, and to random delays.

   Observable events (inputs consumed, outputs produced, idle markers, time steps) are
   appended to s.outs by every step in exactly the format of the traces recorded from the
   real code (DESIGN Appendix C), so that property monitors (Mon_*.tla) and the trace
   specifications (SDTrace.tla) read the same alphabet.

   Deviation switches (constant record Sw) select the AS-SHIPPED behaviour of the pinned
   commit where it differs from the intended design; all FALSE = the design in which the
   properties hold (and which the repaired code follows).                                  *)
EXTENDS Naturals, Integers, Sequences, FiniteSets, TLC

CONSTANTS
  Inputs,      \* set of environment inputs (records with field op) that may be injected
  MaxEv,       \* budget of environment inputs per behaviour
  MaxIdle,     \* ticks that may pass while no timer is pending (bounds idle waiting)
  MaxPerPoll,  \* inputs that may arrive in one poll
  Match,       \* [filter name -> set of service names]  (wildcard rule: Match.tla / C19)
  Cfg,         \* record of timing configuration (see CfgDefault)
  Sw           \* record of deviation switches

FOREVER == 16777215

\* configuration record: configs write  [field |-> value, ...] @@ CfgDefault
CfgDefault == [ maxId      |-> 3,       \* session ids wrap after maxId (65535 in the code; small in interleaving configs)
                seeReboot  |-> FALSE,   \* reboot_detected calls on the three components are observable
                timerPhase |-> FALSE,   \* environment inputs may also run among the due timers of an iteration
                watch0     |-> <<>> ]   \* initial listener registrations

\* all deviation switches off = the intended design; AsShipped = the pinned commit 06eaa50
AllOff == [ DeferExpiryNotify   |-> FALSE,  \* D1  TimedStore._expired defers its callback
            DeferStopAllNotify  |-> FALSE,  \* D2  stop_all_for_address defers its callbacks
            DeferRebootFanout   |-> FALSE,  \* D3  reboot_detected defers the three components
            IgnoreWhenUnwatched |-> FALSE,  \* D10/D12 handle_offer ignores everything unwatched
            DeferWatchReplay    |-> FALSE,  \* D11 watch/unwatch replay deferred
            DeferHandleOffer    |-> FALSE,  \* D13 offers deferred (harmful once D3 is repaired)
            StaleTimerOnRefresh |-> FALSE,  \* spec mutant: refresh forgets to cancel the old timer
            ForeverGetsTimer    |-> FALSE,  \* spec mutant: the infinite TTL arms a timer
            RebootNeedsSmallerId |-> FALSE, \* spec mutant: '>' instead of '>=' in the reboot rule
            WrapToZero          |-> FALSE,  \* spec mutant: the counter wraps to 0 instead of 1
            EmptySendTakesId    |-> FALSE ] \* spec mutant: an empty send consumes a session id
AsShipped == [AllOff EXCEPT !.DeferExpiryNotify = TRUE, !.DeferStopAllNotify = TRUE, !.DeferRebootFanout = TRUE,
                            !.IgnoreWhenUnwatched = TRUE, !.DeferWatchReplay = TRUE, !.DeferHandleOffer = TRUE]

-----------------------------------------------------------------------------
(* ------------------------------ helpers --------------------------------- *)
Range(f) == {f[x] : x \in DOMAIN f}
Remove(f, k) == [x \in DOMAIN f \ {k} |-> f[x]]
Put(f, k, v) == [x \in DOMAIN f \cup {k} |-> IF x = k THEN v ELSE f[x]]
Get(f, k, d) == IF k \in DOMAIN f THEN f[k] ELSE d

\* every enumeration order of a finite set (used for fan-outs whose order is a hash order)
Perms(S) == {q \in [1..Cardinality(S) -> S] : \A i, j \in DOMAIN q : i # j => q[i] # q[j]}
\* a canonical order (exhaustive configs use it where the monitors are order-insensitive)
RECURSIVE SetToSeq(_)
SetToSeq(S) == IF S = {} THEN <<>> ELSE LET x == CHOOSE x \in S : TRUE IN <<x>> \o SetToSeq(S \ {x})

-----------------------------------------------------------------------------
(* ---------------------------- the event loop ----------------------------- *)
\* s.ready  FIFO of callback records          s.todo   callbacks left in this iteration
\* s.timers set of [left, cb, n] (n = multiplicity; timers carry no identity)
CallSoon(s, cb) == [s EXCEPT !.ready = Append(@, cb)]
CallLater(s, d, cb) ==
  IF \E x \in s.timers : x.left = d /\ x.cb = cb
  THEN [s EXCEPT !.timers = {IF x.left = d /\ x.cb = cb THEN [x EXCEPT !.n = @ + 1] ELSE x : x \in @}]
  ELSE [s EXCEPT !.timers = @ \cup {[left |-> d, cb |-> cb, n |-> 1]}]
\* handle.cancel(): a pending timer disappears; one whose callback was already moved to the ready
\* queue by this iteration's poll stays queued but is skipped when its turn comes (asyncio)
CancelTimer(s, cb) == [s EXCEPT !.timers = {x \in @ : x.cb # cb},
                                !.ready = [i \in DOMAIN @ |-> IF @[i] = cb THEN [kind |-> "cancelled"] ELSE @[i]]]
Out(s, e) == [s EXCEPT !.outs = Append(@, e)]
Due(s) == {x \in s.timers : x.left = 0}
IsIdle(s) == s.ready = <<>> /\ s.todo = 0 /\ Due(s) = {}

-----------------------------------------------------------------------------
(* ------------------------- _SessionStorage (C07) ------------------------- *)
\* s.sessIn : [<<sender, multicast>> -> <<flag, session id>>]
RebootSeen(s, src, mc, rb, sid) ==
  LET k == <<src, mc>> IN
  k \in DOMAIN s.sessIn /\ rb /\ (~s.sessIn[k][1] \/ (s.sessIn[k][2] > 0 /\
      (IF Sw.RebootNeedsSmallerId THEN s.sessIn[k][2] > sid ELSE s.sessIn[k][2] >= sid)))
SessRecord(s, src, mc, rb, sid) == [s EXCEPT !.sessIn = Put(@, <<src, mc>>, <<rb, sid>>)]

\* s.sessOut : [destination -> <<flag, next id>>]   (assign_outgoing: 1..maxId, flag cleared at the wrap)
AssignOut(s, dst) ==
  LET cur == Get(s.sessOut, dst, <<TRUE, 1>>)
      nxt == IF cur[2] >= Cfg.maxId THEN <<FALSE, IF Sw.WrapToZero THEN 0 ELSE 1>> ELSE <<cur[1], cur[2] + 1>>
  IN <<[s EXCEPT !.sessOut = Put(@, dst, nxt)], cur>>
\* ServiceDiscoveryProtocol.send_sd: nothing at all for an empty entry list (C08)
SendSD(s, dst, es) ==
  IF es = <<>> THEN (IF Sw.EmptySendTakesId THEN AssignOut(s, dst)[1] ELSE s)
  ELSE LET r == AssignOut(s, dst)
       IN Out(r[1], [k |-> "out", op |-> "tx", dst |-> dst, sid |-> r[2][2], rb |-> r[2][1], uc |-> TRUE, es |-> es])

-----------------------------------------------------------------------------
(* ----------------------- discovery: registrations ------------------------ *)
\* s.watch : [listener -> set of filter names]  ("ALL" = watch_all_services)
Hears(s, l, svc) == \E f \in s.watch[l] : svc \in Match[f]
Listeners(s, svc) == {l \in DOMAIN s.watch : Hears(s, l, svc)}
\* is_watching_service: some watch-all listener, or a filter that was EVER watched matches
\* (stop_watch_service leaves the filter key behind with an empty listener set)
IsWatching(s, svc) == (\E l \in DOMAIN s.watch : "ALL" \in s.watch[l]) \/ (\E f \in s.wkeys : svc \in Match[f])

RECURSIVE NotifySeq(_, _, _, _, _)
NotifySeq(s, q, what, svc, src) ==
  IF q = <<>> THEN s
  ELSE NotifySeq(Out(s, [k |-> "out", op |-> what, lst |-> Head(q), svc |-> svc, src |-> src]),
                 Tail(q), what, svc, src)
\* _notify_service_offered / _notify_service_stopped: synchronous fan-out to the listeners
\* registered NOW (order = dict / set order: canonical here, compared as a bag by SDTrace)
NotifyFound(s, what, svc, src) == NotifySeq(s, SetToSeq(Listeners(s, svc)), what, svc, src)

-----------------------------------------------------------------------------
(* ------------------------- TimedStore (C09) ------------------------------ *)
\* s.store : [store name -> set of <<address, key>>]; the expiry timers live in s.timers and are
\* identified by their content (one per entry).  Stores: "found" (ServiceDiscover.found_services),
\* "ts" (a bare TimedStore driven directly, C09), <<"subs", i>> (ServiceInstance.subscriptions).
ExpTimer(st, a, key) == [kind |-> "expired", store |-> st, a |-> a, key |-> key]
Has(s, st, a, key) == <<a, key>> \in s.store[st]

\* callback_new / callback_expired of the store
TSNew(s, st, a, key) ==
  CASE st = "found" -> NotifyFound(s, "offered", key, a)
    [] st = "ts"    -> Out(s, [k |-> "out", op |-> "new", a |-> a, key |-> key])
TSGone(s, st, a, key) ==
  CASE st = "found" -> NotifyFound(s, "stopped", key, a)
    [] st = "ts"    -> Out(s, [k |-> "out", op |-> "gone", a |-> a, key |-> key])

\* TimedStore.refresh: a new entry is reported, an old timer cancelled; the new deadline replaces
\* the old one (no timer at all for the infinite TTL)
TSRefresh(s, st, a, key, ttl) ==
  LET s1 == IF Has(s, st, a, key)
            THEN (IF Sw.StaleTimerOnRefresh THEN s ELSE CancelTimer(s, ExpTimer(st, a, key)))
            ELSE TSNew(s, st, a, key)
      s2 == [s1 EXCEPT !.store[st] = @ \cup {<<a, key>>}]
  IN IF ttl = FOREVER /\ ~Sw.ForeverGetsTimer THEN s2 ELSE CallLater(s2, ttl, ExpTimer(st, a, key))

\* TimedStore.stop: immediate notification
TSStop(s, st, a, key) ==
  IF ~Has(s, st, a, key) THEN s
  ELSE TSGone(CancelTimer([s EXCEPT !.store[st] = @ \ {<<a, key>>}], ExpTimer(st, a, key)), st, a, key)

\* TimedStore._expired (timer callback).  As shipped the notification is deferred (D1).
TSExpired(s, st, a, key) ==
  IF ~Has(s, st, a, key) THEN s
  ELSE LET s1 == [s EXCEPT !.store[st] = @ \ {<<a, key>>}] IN
       IF Sw.DeferExpiryNotify
       THEN CallSoon(s1, [kind |-> "notify_gone", store |-> st, a |-> a, key |-> key])
       ELSE TSGone(s1, st, a, key)

RECURSIVE StopSeq(_, _, _, _)
StopSeq(s, st, q, defer) ==
  IF q = <<>> THEN s
  ELSE LET k == Head(q)
           s1 == CancelTimer([s EXCEPT !.store[st] = @ \ {k}], ExpTimer(st, k[1], k[2]))
       IN StopSeq(IF defer THEN CallSoon(s1, [kind |-> "notify_gone", store |-> st, a |-> k[1], key |-> k[2]])
                  ELSE TSGone(s1, st, k[1], k[2]), st, Tail(q), defer)
\* TimedStore.stop_all_for_address / stop_all.  As shipped the notifications are deferred (D2).
TSStopAddr(s, st, a) == StopSeq(s, st, SetToSeq({k \in s.store[st] : k[1] = a}), Sw.DeferStopAllNotify)
TSStopAll(s, st) == StopSeq(s, st, SetToSeq(s.store[st]), Sw.DeferStopAllNotify)
\* TimedStore.stop_all_matching: immediate, via stop()
TSStopMatching(s, st, keys) == StopSeq(s, st, SetToSeq({k \in s.store[st] : k[2] \in keys}), FALSE)

FoundRefresh(s, src, svc, ttl) == TSRefresh(s, "found", src, svc, ttl)
FoundStop(s, src, svc) == TSStop(s, "found", src, svc)
FoundStopAddr(s, src) == TSStopAddr(s, "found", src)
FoundStopAll(s) == TSStopAll(s, "found")

-----------------------------------------------------------------------------
(* ------------------------------ discovery -------------------------------- *)
\* ServiceDiscover.handle_offer (its own callback: queued by sd_message_received).
\* Intended: a stop-offer always withdraws, and an offer nobody is watching (any more) must not
\* leave a stale record behind.  As shipped (D10/D12) both are ignored when nobody is watching.
HandleOffer(s, src, en) ==
  IF ~IsWatching(s, en.svc)
  THEN IF Sw.IgnoreWhenUnwatched THEN s ELSE FoundStop(s, src, en.svc)
  ELSE IF en.ttl = 0 THEN FoundStop(s, src, en.svc) ELSE FoundRefresh(s, src, en.svc, en.ttl)

\* watch_service / watch_all_services: register, replay what is already known
RECURSIVE ReplaySeq(_, _, _, _, _)
ReplaySeq(s, q, what, l, defer) ==
  IF q = <<>> THEN s
  ELSE LET k == Head(q)
           e == [k |-> "out", op |-> what, lst |-> l, svc |-> k[2], src |-> k[1]]
       IN ReplaySeq(IF defer THEN CallSoon(s, [kind |-> "emit", e |-> e]) ELSE Out(s, e),
                    Tail(q), what, l, defer)
Watch(s, l, f) ==
  LET s1 == [s EXCEPT !.watch[l] = @ \cup {f}, !.wkeys = IF f = "ALL" THEN @ ELSE @ \cup {f}]
  IN ReplaySeq(s1, SetToSeq({k \in s.store["found"] : k[2] \in Match[f]}), "offered", l, Sw.DeferWatchReplay)
Unwatch(s, l, f) ==
  LET s1 == [s EXCEPT !.watch[l] = @ \ {f}]
  IN ReplaySeq(s1, SetToSeq({k \in s.store["found"] : k[2] \in Match[f]}), "stopped", l, Sw.DeferWatchReplay)

-----------------------------------------------------------------------------
(* ----------------- ServiceDiscoveryProtocol: receive path ---------------- *)
\* reboot_detected: subscriber (no-op), discovery, announcer -- each exactly once per detection.
\* With Cfg.seeReboot the three calls are observable (the harness wraps the components).
RebootObs(s, comp, src) ==
  IF Cfg.seeReboot THEN Out(s, [k |-> "out", op |-> "reboot", comp |-> comp, a |-> src]) ELSE s
RebootDisc(s, src) == FoundStopAddr(RebootObs(s, "disc", src), src)
RebootSub(s, src) == RebootObs(s, "sub", src)
RebootAnn(s, src) == RebootObs(s, "ann", src)
RebootFanout(s, src) ==
  IF Sw.DeferRebootFanout
  THEN CallSoon(CallSoon(CallSoon(s, [kind |-> "reboot_sub", a |-> src]), [kind |-> "reboot_disc", a |-> src]),
                [kind |-> "reboot_ann", a |-> src])
  ELSE RebootAnn(RebootDisc(RebootSub(s, src), src), src)

RECURSIVE DispatchEntries(_, _, _, _)
DispatchEntries(s, src, mc, es) ==
  IF es = <<>> THEN s
  ELSE LET en == Head(es)
           s1 == CASE en.ty = "offer" -> IF Sw.DeferHandleOffer
                                         THEN CallSoon(s, [kind |-> "handle_offer", a |-> src, en |-> en])
                                         ELSE HandleOffer(s, src, en)
                   [] OTHER -> s
       IN DispatchEntries(s1, src, mc, Tail(es))

\* datagram_received for a decodable SD message (one loop callback)
Rx(s, e) ==
  LET reb == RebootSeen(s, e.src, e.mc, e.rb, e.sid)
      s1  == SessRecord(s, e.src, e.mc, e.rb, e.sid)
      s2  == IF reb THEN RebootFanout(s1, e.src) ELSE s1
  IN IF e.uc THEN DispatchEntries(s2, e.src, e.mc, e.es) ELSE s2

ConnLost(s) ==   \* ServiceDiscoveryProtocol.connection_lost defers to the three components
  CallSoon(s, [kind |-> "connlost_disc"])

-----------------------------------------------------------------------------
(* ------------------------ one callback = one step ------------------------ *)
Input(s, e) ==      \* an environment input, delivered as an I/O callback
  LET s0 == Out(s, IF e.op = "rx" THEN e ELSE [e EXCEPT !.op = @] @@ [k |-> "in"]) IN
  CASE e.op = "rx"       -> Rx(s0, e)
    [] e.op = "watch"    -> Watch(s0, e.lst, e.flt)
    [] e.op = "unwatch"  -> Unwatch(s0, e.lst, e.flt)
    [] e.op = "connlost" -> ConnLost(s0)
    [] e.op = "send"     -> SendSD(s0, e.dst, e.es)          \* public send_sd (C08)
    \* a bare TimedStore driven through its public methods (C09)
    [] e.op = "ts_refresh"  -> TSRefresh(s0, "ts", e.a, e.key, e.ttl)
    [] e.op = "ts_stop"     -> TSStop(s0, "ts", e.a, e.key)
    [] e.op = "ts_stopaddr" -> TSStopAddr(s0, "ts", e.a)
    [] e.op = "ts_stopall"  -> TSStopAll(s0, "ts")
    [] e.op = "ts_stopmatch" -> TSStopMatching(s0, "ts", Range(e.keys))

Effect(s, c) ==
  CASE c.kind = "input"          -> Input(s, c.e)
    [] c.kind = "handle_offer"   -> HandleOffer(s, c.a, c.en)
    [] c.kind = "expired"        -> TSExpired(s, c.store, c.a, c.key)
    [] c.kind = "notify_gone"    -> TSGone(s, c.store, c.a, c.key)
    [] c.kind = "emit"           -> Out(s, c.e)
    [] c.kind = "reboot_disc"    -> RebootDisc(s, c.a)
    [] c.kind = "reboot_sub"     -> RebootSub(s, c.a)
    [] c.kind = "reboot_ann"     -> RebootAnn(s, c.a)
    [] c.kind = "connlost_disc"  -> FoundStopAll(s)
    [] c.kind = "cancelled"      -> s

-----------------------------------------------------------------------------
VARIABLE s
vars == <<s>>

Init ==
  s = [ ready |-> <<>>, todo |-> 0, timers |-> {}, outs |-> <<>>, ev |-> 0, idle |-> 0,
        sessIn |-> <<>>, sessOut |-> <<>>, peer |-> <<>>, watch |-> Cfg.watch0, wkeys |-> UNION Range(Cfg.watch0) \ {"ALL"},
        store |-> [found |-> {}, ts |-> {}] ]

\* inputs applicable now (a listener registers under one filter at a time: DESIGN §9)
Applicable(st, e) ==
  CASE e.op = "watch"   -> st.watch[e.lst] = {}
    [] e.op = "unwatch" -> e.flt \in st.watch[e.lst]
    [] OTHER -> TRUE

\* the environment peer keeps its own outgoing session counter per (address, channel), wrapping
\* at Cfg.maxId like a real sender (C08); an input with reboot = TRUE is the first message of a
\* new incarnation of that peer.  Inputs other than rx are passed through.
Concretise(st, e) ==
  IF e.op # "rx" \/ "sid" \in DOMAIN e THEN <<st, e>>     \* (an rx input may also prescribe sid / rb itself)
  ELSE LET k   == <<e.src, e.mc>>
           cur == IF e.reboot \/ k \notin DOMAIN st.peer THEN <<TRUE, 1>> ELSE st.peer[k]
           nxt == IF cur[2] >= Cfg.maxId THEN <<FALSE, 1>> ELSE <<cur[1], cur[2] + 1>>
       IN <<[st EXCEPT !.peer = Put(@, k, nxt)],
            [op |-> "rx", k |-> "in", src |-> e.src, mc |-> e.mc, sid |-> cur[2], rb |-> cur[1],
             uc |-> e.uc, es |-> e.es]>>

RECURSIVE Arrive(_, _)
Arrive(st, ins) ==    \* the I/O callbacks of this poll, appended in arrival order
  IF ins = <<>> THEN st
  ELSE LET r == Concretise(st, Head(ins))
       IN Arrive([r[1] EXCEPT !.ready = Append(@, [kind |-> "input", e |-> r[2]]), !.ev = @ + 1], Tail(ins))

RECURSIVE Copies(_, _)
Copies(x, n) == IF n = 0 THEN <<>> ELSE <<x>> \o Copies(x, n - 1)
RECURSIVE TimerCbs(_)
TimerCbs(tq) == IF tq = <<>> THEN <<>> ELSE Copies(Head(tq).cb, Head(tq).n) \o TimerCbs(Tail(tq))

\* Poll: the iteration boundary.  I/O that arrived first, then due timers in ANY order.
Poll ==
  /\ s.todo = 0
  /\ \E ins \in {q \in UNION {[1..n -> Inputs] : n \in 0..MaxPerPoll} : Len(q) + s.ev <= MaxEv} :
     \E tq \in Perms(Due(s)) :
       /\ ins # <<>> \/ s.ready # <<>> \/ Due(s) # {}
       /\ \A i \in DOMAIN ins : Applicable(s, ins[i])
       /\ LET s1  == Arrive([s EXCEPT !.outs = <<>>, !.ready = <<>>], ins)   \* the I/O callbacks
              io  == s1.ready
              tcb == TimerCbs(tq)
          IN \E ord \in (IF Cfg.timerPhase THEN Perms(1..(Len(io) + Len(tcb))) ELSE {[i \in 1..(Len(io) + Len(tcb)) |-> i]}) :
               LET all == io \o tcb
                   s2  == [s1 EXCEPT !.ready = s.ready \o [i \in DOMAIN all |-> all[ord[i]]], !.timers = @ \ Due(s)]
               IN s' = [s2 EXCEPT !.todo = Len(s2.ready)]

Run ==
  /\ s.todo > 0
  /\ LET c  == Head(s.ready)
         s0 == [s EXCEPT !.ready = Tail(@), !.todo = @ - 1, !.outs = <<>>]
     IN s' = Effect(s0, c)

\* nothing ready, nothing due: the loop is idle; time passes -- one tick, or straight to the next
\* deadline (the environment can therefore act just before, at and after every deadline)
MinLeft(st) == CHOOSE m \in {x.left : x \in st.timers} : \A x \in st.timers : m <= x.left
Tick ==
  /\ IsIdle(s)
  /\ s.timers # {} \/ (s.idle < MaxIdle /\ s.ev < MaxEv)
  /\ \E d \in (IF s.timers = {} THEN {1}
               ELSE IF MinLeft(s) <= 3 THEN {1, MinLeft(s)}
               ELSE {MinLeft(s) - 1, MinLeft(s)}) :      \* far deadline: land just before it, or on it
       s' = [s EXCEPT !.timers = {[x EXCEPT !.left = @ - d] : x \in @},
                      !.idle = IF s.timers = {} THEN @ + 1 ELSE @,
                      !.outs = <<[k |-> "idle"], [k |-> "adv", d |-> d]>>]

Next == Poll \/ Run \/ Tick
Spec == Init /\ [][Next]_vars
=============================================================================
