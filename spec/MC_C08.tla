------------------------------ MODULE MC_C08 ------------------------------
(* Mode 1 for C08: send_sd / assign_outgoing of SD.tla composed with Mon_C08.
   (a) one destination, MaxId = 0xFFFF: the complete 2 x 65535 cycle is walked;
   (b) three destinations, MaxId = 3, empty sends interleaved: all interleavings.             *)
EXTENDS SD
M == INSTANCE Mon_C08
VARIABLE mon
mcvars == <<s, mon>>
RECURSIVE Fold(_, _)
Fold(m, es) == IF es = <<>> THEN m ELSE Fold(M!MonStep(m, Head(es)), Tail(es))
MCInit == Init /\ mon = M!MonInit([dsts |-> Cfg.dsts, maxId |-> Cfg.maxId])
MCNext == Next /\ mon' = Fold(mon, s'.outs)
MCSpec == MCInit /\ [][MCNext]_mcvars
MonOK  == mon.bad = ""
IdleOK == IsIdle(s) => M!Settle(mon).bad = ""
\* the expected counters of the monitor are the counters of the model; id 0 never occurs
Agree  == \A d \in DOMAIN s.sessOut : mon.nxt[d] = s.sessOut[d] /\ s.sessOut[d][2] \in 1..Cfg.maxId
View   == <<[s EXCEPT !.ev = 0, !.outs = <<>>], mon.nxt, mon.owe, mon.bad>>

One == <<[ty |-> "offer", svc |-> "s1", ttl |-> 3]>>
Sends(dsts) == {[op |-> "send", dst |-> d, es |-> e] : d \in dsts, e \in {One, <<>>}}
Q_Cfg == [dsts |-> <<"mc", "a1", "a2">>] @@ CfgDefault
Q_Inputs == Sends({"mc", "a1", "a2"})
W_Cfg == [dsts |-> <<"a1">>, maxId |-> 65535] @@ CfgDefault
W_Inputs == {[op |-> "send", dst |-> "a1", es |-> One]}
NoMatch == <<>>
NoSw == AllOff
SwZero == [AllOff EXCEPT !.WrapToZero = TRUE]
SwEmpty == [AllOff EXCEPT !.EmptySendTakesId = TRUE]
=============================================================================
