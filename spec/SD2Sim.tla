------------------------------- MODULE SD2Sim -------------------------------
(* Mode 2 for the two-stack specification: behaviours of SD2.tla (tlc -simulate) with the history of
   disturbances and observable outputs per instant, printed as JSON at the end of every behaviour.  The
   harness applies the disturbances to two real stacks at the same instants and compares the outputs.   *)
EXTENDS SD2Configs, Json
CONSTANT FaultTimes      \* instants at which a simulated behaviour may place disturbances (spreads them over the window)
VARIABLES hist
simvars == <<vars2, hist>>
SimInit == Init2 /\ hist = <<>>
SimNext == /\ Next2
           /\ (\E i \in DOMAIN obs' : obs'[i].k = "in" /\ obs'[i].op = "fault" /\ obs'[i].kind \notin {"drop_applied", "dup_applied", "delay_applied"})
                 => clk \in FaultTimes
           /\ hist' = hist \o [i \in DOMAIN obs' |-> obs'[i] @@ [t |-> IF obs'[i].k = "adv" THEN clk' ELSE clk]]
SimSpec == SimInit /\ [][SimNext]_simvars
Dump == (clk = Horizon /\ AllIdle) => PrintT(<<"SIM", ToJson(hist)>>)
=============================================================================
