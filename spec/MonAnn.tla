----------------------------- MODULE MonAnn -----------------------------
(* Shared by the announcer-side property monitors (Mon_C06/C10/C11/C12): the life cycle of the
   announced instances as far as it follows from the INPUTS alone.
     annl     announcing instances in order      run[i]  instance i has been started and not stopped
     started  announcer started                  cl      connection loss reported, applied when the loop settles
   A connection loss is applied by the implementation one loop iteration later (observable:
   out cl_applied comp); datagrams of that window are outside the statements, so the monitors are
   lenient between `in connlost` and `out cl_applied ann` (or the next idle).                   *)
EXTENDS Naturals, Integers, Sequences, FiniteSets, TLC
FOREVER == 16777215
Range(s) == {s[i] : i \in DOMAIN s}
Put(f, k, v) == [x \in DOMAIN f \cup {k} |-> IF x = k THEN v ELSE f[x]]
Get(f, k, d) == IF k \in DOMAIN f THEN f[k] ELSE d
Fail(m, clause) == IF m.bad = "" THEN [m EXCEPT !.bad = clause, !.at = m.n] ELSE m
Without(q, x) == SelectSeq(q, LAMBDA y : y # x)

LifeInit(cfg) ==
  [ cfg |-> cfg, annl |-> cfg.ann0, started |-> FALSE, cl |-> FALSE,
    run |-> [i \in Range(cfg.insts) |-> FALSE], bad |-> "", at |-> 0, n |-> 0 ]

Insts(m) == Range(m.cfg.insts)
Announced(m) == Range(m.annl)
\* instances whose state changes by this input: <<started instances, stopped instances>>
Starts(m, e) ==
  CASE e.op = "ann_start" -> {i \in Announced(m) : ~m.run[i]}
    [] e.op = "announce"  -> IF m.started /\ ~m.run[e.inst] THEN {e.inst} ELSE {}
    [] OTHER -> {}
Stops(m, e) ==
  CASE e.op = "ann_stop" -> {i \in Announced(m) : m.run[i]}
    [] e.op = "stop_announce" -> IF m.started /\ m.run[e.inst] /\ e.inst \in Announced(m) THEN {e.inst} ELSE {}
    [] OTHER -> {}
Life(m, e) ==
  LET a == Starts(m, e)  z == Stops(m, e)
      m1 == [m EXCEPT !.run = [i \in DOMAIN @ |-> IF i \in a THEN TRUE ELSE IF i \in z THEN FALSE ELSE @[i]]]
  IN CASE e.op = "ann_start" -> [m1 EXCEPT !.started = TRUE]
       [] e.op = "ann_stop"  -> [m1 EXCEPT !.started = FALSE]
       [] e.op = "announce"  -> [m1 EXCEPT !.annl = Append(@, e.inst)]
       [] e.op = "stop_announce" -> [m1 EXCEPT !.annl = Without(@, e.inst)]
       [] e.op = "connlost"  -> [m1 EXCEPT !.cl = TRUE]
       [] OTHER -> m1
\* the deferred stop of a connection loss, applied when the loop settles
Settled(m) == IF m.cl THEN [m EXCEPT !.cl = FALSE, !.started = FALSE, !.run = [i \in DOMAIN @ |-> IF i \in Announced(m) THEN FALSE ELSE @[i]]] ELSE m

SvcOf(m, i) == m.cfg.inst[i].svc
SubKey(x) == <<x.svc, x.eg, x.ctr, x.eps>>

(* ---- ghost model of the server-side subscriptions (C06, C11), from the inputs alone ----
   sess  <<src, mc>> -> <<flag, id>>          (reboot evidence by the rule of C07)
   live  <<inst, src, key>> -> remaining life; AMB = "either" (a Subscribe that the listener would
         reject arrived in the very tick in which the subscription expires: refreshed -- the listener
         is not consulted -- or expired and rejected; both are accepted, C09)
   exp   keys whose life ran out in the current tick                                          *)
Amb(ttl) == 0 - ttl          \* "either not live, or live for ttl": settled by what the implementation reports
GhostInit == [sess |-> <<>>, live |-> <<>>, exp |-> {}]
RECURSIVE GSetLive(_, _, _)
GSetLive(m, ks, v) == IF ks = {} THEN m ELSE LET k == CHOOSE k \in ks : TRUE IN GSetLive([m EXCEPT !.live = Put(@, k, v)], ks \ {k}, v)
GKill(m, P(_)) == [m EXCEPT !.live = [k \in DOMAIN @ |-> IF P(k) THEN 0 ELSE @[k]]]
GLive(m, k) == Get(m.live, k, 0)
GHit(m, en) == {i \in Announced(m) : m.run[i] /\ en.svc \in Range(m.cfg.inst[i].subs) /\ en.eg \in Range(m.cfg.inst[i].egs)}
\* what one Subscribe entry does to the ghost
GEntry(m, src, en) ==
  IF en.ty # "sub" THEN m
  ELSE LET ks == {<<i, src, SubKey(en)>> : i \in GHit(m, en)} IN
       IF en.ttl = 0 THEN GSetLive(m, ks, 0)
       ELSE IF m.cl THEN m                                       \* will be wiped by the pending connection loss
       ELSE IF en.acc THEN GSetLive(m, ks, en.ttl)
       ELSE GSetLive(GSetLive(m, {k \in ks : GLive(m, k) > 0}, en.ttl),       \* refresh: listener not consulted
                     \* (a second such entry in the same tick: still "not live, or live for ITS ttl")
                     {k \in ks : (GLive(m, k) = 0 /\ k \in m.exp) \/ GLive(m, k) < 0}, Amb(en.ttl))
\* reboot evidence of a message, applied before its entries
GReboot(m, e) ==
  LET k   == <<e.src, e.mc>>
      reb == k \in DOMAIN m.sess /\ e.rb /\ (~m.sess[k][1] \/ m.sess[k][2] >= e.sid)
      m1  == [m EXCEPT !.sess = Put(@, k, <<e.rb, e.sid>>)]
  IN IF reb THEN GKill(m1, LAMBDA x : x[2] = e.src) ELSE m1
\* (an entry that is ambiguous -- "not live, or live for t" -- and is not settled by a notification keeps its ambiguity while
\*  time passes; the tick in which its possible life ends is an expiry tick like any other)
GAdv(m, d) ==
  LET nv(x) == IF x = FOREVER \/ x = 0 - FOREVER THEN x
               ELSE IF x < 0 THEN (IF 0 - x > d THEN x + d ELSE 0)
               ELSE IF x > d THEN x - d ELSE 0
  IN [m EXCEPT !.exp = {k \in DOMAIN m.live : (m.live[k] > 0 /\ nv(m.live[k]) = 0) \/ (m.live[k] < 0 /\ 0 - m.live[k] = d)},
               !.live = [k \in DOMAIN @ |-> nv(@[k])]]
InstOfSvc(m, svc) == {i \in Insts(m) : SvcOf(m, i) = svc}
SubMatches(m, i, en) == en.svc \in Range(m.cfg.inst[i].subs) /\ en.eg \in Range(m.cfg.inst[i].egs)
FindMatches(m, i, flt) == flt \in DOMAIN m.cfg.findMatch /\ SvcOf(m, i) \in Range(m.cfg.findMatch[flt])
Rejected(m, en) == ~en.acc      \* the decision the server-side listener takes for this entry (part of the input)
=============================================================================
