----------------------------- MODULE MonAnn -----------------------------
(* Shared by the announcer-side property monitors (Mon_C06/C10/C11/C12): the life cycle of the
   announced instances as far as it follows from the INPUTS alone.
     annl     announcing instances in order      run[i]  instance i has been started and not stopped
     started  announcer started                  cl      connection loss reported, applied when the loop settles
   A connection loss is applied by the implementation one loop iteration later (observable:
   out cl_applied comp); datagrams of that window are outside the statements, so the monitors are
   lenient between `in connlost` and `out cl_applied ann` (or the next idle).                   *)
EXTENDS Naturals, Integers, Sequences, FiniteSets, TLC
FOREVER == 16777215
Range(s) == {s[i] : i \in DOMAIN s}
Put(f, k, v) == [x \in DOMAIN f \cup {k} |-> IF x = k THEN v ELSE f[x]]
Get(f, k, d) == IF k \in DOMAIN f THEN f[k] ELSE d
Fail(m, clause) == IF m.bad = "" THEN [m EXCEPT !.bad = clause, !.at = m.n] ELSE m
Without(q, x) == SelectSeq(q, LAMBDA y : y # x)

LifeInit(cfg) ==
  [ cfg |-> cfg, annl |-> cfg.ann0, started |-> FALSE, cl |-> FALSE,
    run |-> [i \in Range(cfg.insts) |-> FALSE], bad |-> "", at |-> 0, n |-> 0 ]

Insts(m) == Range(m.cfg.insts)
Announced(m) == Range(m.annl)
\* instances whose state changes by this input: <<started instances, stopped instances>>
Starts(m, e) ==
  CASE e.op = "ann_start" -> {i \in Announced(m) : ~m.run[i]}
    [] e.op = "announce"  -> IF m.started /\ ~m.run[e.inst] THEN {e.inst} ELSE {}
    [] OTHER -> {}
Stops(m, e) ==
  CASE e.op = "ann_stop" -> {i \in Announced(m) : m.run[i]}
    [] e.op = "stop_announce" -> IF m.started /\ m.run[e.inst] /\ e.inst \in Announced(m) THEN {e.inst} ELSE {}
    [] OTHER -> {}
Life(m, e) ==
  LET a == Starts(m, e)  z == Stops(m, e)
      m1 == [m EXCEPT !.run = [i \in DOMAIN @ |-> IF i \in a THEN TRUE ELSE IF i \in z THEN FALSE ELSE @[i]]]
  IN CASE e.op = "ann_start" -> [m1 EXCEPT !.started = TRUE]
       [] e.op = "ann_stop"  -> [m1 EXCEPT !.started = FALSE]
       [] e.op = "announce"  -> [m1 EXCEPT !.annl = Append(@, e.inst)]
       [] e.op = "stop_announce" -> [m1 EXCEPT !.annl = Without(@, e.inst)]
       [] e.op = "connlost"  -> [m1 EXCEPT !.cl = TRUE]
       [] OTHER -> m1
\* the deferred stop of a connection loss, applied when the loop settles
Settled(m) == IF m.cl THEN [m EXCEPT !.cl = FALSE, !.started = FALSE, !.run = [i \in DOMAIN @ |-> IF i \in Announced(m) THEN FALSE ELSE @[i]]] ELSE m

SvcOf(m, i) == m.cfg.inst[i].svc
InstOfSvc(m, svc) == {i \in Insts(m) : SvcOf(m, i) = svc}
SubMatches(m, i, en) == en.svc \in Range(m.cfg.inst[i].subs) /\ en.eg \in Range(m.cfg.inst[i].egs)
FindMatches(m, i, flt) == flt \in DOMAIN m.cfg.findMatch /\ SvcOf(m, i) \in Range(m.cfg.findMatch[flt])
Rejected(m, en) == en.ctr \in Range(m.cfg.rejectCtr)
=============================================================================
