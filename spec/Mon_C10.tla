---------------------------- MODULE Mon_C10 ----------------------------
(* Property monitor for C10 -- "Offer lifecycle: wait, repetition and cyclic phases; nothing
   follows a StopOffer".
     in life-cycle inputs (ann_start / ann_stop / announce / stop_announce / connlost);
     rand lo hi val;  out tx dst es (offer entries);  exc;  idle, adv.
   Per instance the monitor computes the exact instants at which offers are due (start + drawn
   initial delay, then doubling repetition delays, then the cyclic period) and accepts each
   multicast offer within [instant, instant + collection timeout].  After a stop: exactly one
   StopOffer iff an offer had certainly been queued (optional when that cannot be told from
   outside: stop in the tick of the first offer, non-cyclic instances), and no offer with a
   non-zero TTL to anyone once offers queued before the stop have had time to leave
   (collection timeout; immediately when that timeout is zero).  Reading: DESIGN §9.         *)
EXTENDS MonAnn

Pow2(i) == CASE i = 0 -> 1 [] i = 1 -> 2 [] i = 2 -> 4 [] i = 3 -> 8 [] i = 4 -> 16 [] OTHER -> 32
NotRunning == -2
AwaitRand == -1
Finished == -3
X0 == [nextq |-> NotRunning, k |-> 0, owed |-> <<>>, sure |-> FALSE, fresh |-> FALSE,
       mustN |-> 0, mayN |-> 0,   \* StopOffers still owed for certain / possibly still to come (several incarnations can be
                                  \* stopped before the StopOffer of the first one has left: collection window, or stop /
                                  \* start / stop within one loop iteration)
       stopWin |-> 0, grace |-> 0,
       maybe |-> <<>>]    \* windows of slots consumed while an optional StopOffer was pending (see Offer)

MonInit(cfg) == LifeInit(cfg) @@ [x |-> [i \in Range(cfg.insts) |-> X0]]
W(m) == m.cfg.collect
InitKnown(m) == m.cfg.initMin = m.cfg.initMax
NextDelay(m, k) ==    \* delay after the k-th offer of an incarnation was queued
  IF k <= m.cfg.reps THEN Pow2(k - 1) * m.cfg.base ELSE IF m.cfg.cyclic # 0 THEN m.cfg.cyclic ELSE Finished

SR(x) == IF x.mustN > 0 THEN 2 ELSE IF x.mayN > 0 THEN 1 ELSE 0
Bump(m, k) == IF k > m.cfg.reps THEN k ELSE k + 1     \* (k only matters up to reps + 1: keeps the monitor finite-state)
\* an offer is due right now
Fire(m, x) ==
  IF x.nextq # 0 THEN x
  ELSE [x EXCEPT !.owed = Append(@, W(m)), !.k = Bump(m, @), !.fresh = TRUE, !.nextq = NextDelay(m, x.k + 1)]

\* d ticks pass: due instants inside the jump must still be within their transmission window
RECURSIVE Roll(_, _, _)
Roll(m, x, d) ==      \* -> <<x', missed>>
  IF x.nextq < 0 \/ x.nextq > d THEN <<[x EXCEPT !.nextq = IF @ < 0 THEN @ ELSE @ - d], FALSE>>
  ELSE LET over == d - x.nextq
           nd   == NextDelay(m, x.k + 1)
           x1   == [x EXCEPT !.owed = Append(@, W(m) - over), !.k = Bump(m, @), !.fresh = (over = 0), !.nextq = nd]
       IN IF over > W(m) THEN <<x1, TRUE>>
          ELSE IF nd < 0 \/ over = 0 THEN <<x1, FALSE>>
          ELSE Roll(m, x1, over)

AdvX(m, x, d) ==      \* -> <<x', failing clause or "">>
  LET late  == \E j \in DOMAIN x.owed : x.owed[j] < d
      x1    == [x EXCEPT !.owed = [j \in DOMAIN @ |-> @[j] - d], !.sure = @ \/ x.k > 0, !.fresh = FALSE,
                         !.grace = IF @ > d THEN @ - d ELSE 0,
                         !.stopWin = IF @ > d THEN @ - d ELSE 0,
                         !.mayN = IF x.stopWin < d THEN 0 ELSE @,
                         !.maybe = IF x.stopWin < d THEN <<>> ELSE [j \in DOMAIN @ |-> @[j] - d]]
      r     == Roll(m, x1, d)
  IN <<r[1], IF late \/ r[2] THEN "offer_missing_at_due_time"
             ELSE IF x.mustN > 0 /\ x.stopWin < d THEN "stopoffer_missing" ELSE "">>

Adv(m, d) ==
  LET r == [i \in DOMAIN m.x |-> AdvX(m, m.x[i], d)]
      m1 == [m EXCEPT !.x = [i \in DOMAIN @ |-> r[i][1]]]
  IN IF \E i \in DOMAIN r : r[i][2] # "" THEN Fail(m1, r[CHOOSE i \in DOMAIN r : r[i][2] # ""][2]) ELSE m1

StartX(m, x) ==
  Fire(m, [x EXCEPT !.nextq = IF InitKnown(m) THEN m.cfg.initMin ELSE AwaitRand, !.k = 0, !.owed = <<>>,
                   !.sure = FALSE, !.fresh = FALSE])
StopX(m, x, minGrace) ==
  [x EXCEPT !.nextq = NotRunning, !.owed = <<>>, !.k = 0, !.sure = FALSE, !.fresh = FALSE,
            !.mustN = IF x.sure THEN @ + 1 ELSE @,
            !.mayN = IF ~x.sure /\ (m.cfg.cyclic = 0 \/ x.k > 0) THEN @ + 1 ELSE @,
            !.stopWin = W(m), !.maybe = <<>>,
            !.grace = IF W(m) > 0 THEN W(m) + 1 ELSE minGrace]

Api(m, e) ==
  LET a == Starts(m, e)
      z == Stops(m, e)
      m1 == Life(m, e)
      xs == [i \in DOMAIN m.x |-> IF i \in z THEN StopX(m, m.x[i], 0) ELSE m.x[i]]
  IN [m1 EXCEPT !.x = [i \in DOMAIN xs |-> IF i \in a THEN StartX(m, xs[i]) ELSE xs[i]]]

\* a connection loss stops the announcer when the announcer gets to handle it (one iteration later)
ClApplied(m) ==
  LET z == IF m.cl THEN {i \in Announced(m) : m.run[i]} ELSE {}
  IN [Settled(m) EXCEPT !.x = [i \in DOMAIN @ |-> IF i \in z THEN StopX(m, @[i], 0) ELSE @[i]]]

Rand(m, e) ==
  IF e.lo = m.cfg.initMin /\ e.hi = m.cfg.initMax /\ \E i \in Insts(m) : m.x[i].nextq = AwaitRand
  THEN LET waiting == SelectSeq(m.annl, LAMBDA i : m.x[i].nextq = AwaitRand) IN
       IF waiting = <<>> THEN m
       ELSE IF e.val < e.lo \/ e.val > e.hi THEN Fail(m, "initial_delay_outside_window")
       ELSE [m EXCEPT !.x[Head(waiting)] = Fire(m, [@ EXCEPT !.nextq = e.val])]
  ELSE IF (e.lo = m.cfg.rrMin /\ e.hi = m.cfg.rrMax) \/ (e.lo = m.cfg.initMin /\ e.hi = m.cfg.initMax) THEN m
  ELSE Fail(m, "delay_window_not_the_configured_one")

Offer(m, dst, en) ==
  LET is == InstOfSvc(m, en.svc) IN
  IF is = {} THEN Fail(m, "unknown_identity")
  ELSE LET i == CHOOSE i \in is : TRUE   x == m.x[i] IN
  IF en.ttl = 0
  THEN \* the StopOffer separates the incarnations on the multicast stream: offers seen while it was
       \* only optionally expected belonged to the old incarnation after all -- their slots are given back
       IF dst = "mc" /\ SR(x) > 0
       THEN [m EXCEPT !.x[i].mustN = IF @ > 0 THEN @ - 1 ELSE @, !.x[i].mayN = IF x.mustN = 0 THEN @ - 1 ELSE @,
                      !.x[i].owed = x.maybe \o @, !.x[i].maybe = <<>>]
       ELSE Fail(m, IF dst = "mc" THEN "stopoffer_not_expected_or_repeated" ELSE "stopoffer_not_multicast")
  ELSE LET m1 == IF en.ttl # (IF "ttl" \in DOMAIN m.cfg.inst[i] THEN m.cfg.inst[i].ttl ELSE m.cfg.annTTL) THEN Fail(m, "offer_with_wrong_ttl") ELSE m IN
       IF dst = "mc"
       THEN IF SR(x) = 2 /\ x.grace > 0 THEN m1            \* queued before the stop, leaves before the StopOffer
            ELSE IF x.owed # <<>>
            \* (while a StopOffer of the previous incarnation may still come, an offer proves nothing about this one)
            THEN [m1 EXCEPT !.x[i].owed = Tail(@), !.x[i].sure = IF SR(x) = 1 THEN @ ELSE TRUE,
                            !.x[i].maybe = IF SR(x) = 1 THEN Append(@, Head(x.owed)) ELSE @]
            ELSE IF x.grace > 0 THEN m1
            ELSE Fail(m1, IF x.nextq = NotRunning THEN "offer_after_stop" ELSE "unscheduled_multicast_offer")
       ELSE IF x.nextq # NotRunning \/ x.grace > 0 THEN m1       \* find answers: judged by Mon_C12
            ELSE Fail(m1, "offer_after_stop")

RECURSIVE Tx(_, _, _)
Tx(m, dst, es) ==
  IF es = <<>> THEN m
  ELSE Tx(IF Head(es).ty = "offer" /\ "tag" \notin DOMAIN Head(es) THEN Offer(m, dst, Head(es)) ELSE m, dst, Tail(es))

Idle(m0) ==
  LET m == ClApplied(m0) IN
  IF W(m) = 0 /\ \E i \in Insts(m) : m.x[i].owed # <<>> THEN Fail(m, "offer_missing_at_due_time")
  ELSE IF W(m) = 0 /\ \E i \in Insts(m) : m.x[i].mustN > 0 THEN Fail(m, "stopoffer_missing")
  ELSE IF \E i \in Insts(m) : m.x[i].nextq = AwaitRand THEN Fail(m, "initial_delay_not_drawn")
  ELSE IF W(m) = 0 THEN [m EXCEPT !.x = [i \in DOMAIN @ |-> [@[i] EXCEPT !.mayN = 0]]] ELSE m

MonStep(m0, e) ==
  LET m == [m0 EXCEPT !.n = @ + 1] IN
  IF m0.bad # "" THEN m0 ELSE
  CASE e.k = "in" /\ e.op # "rx" -> Api(m, e)
    [] e.k = "rand" -> Rand(m, e)
    [] e.k = "out" /\ e.op = "tx" -> Tx(m, e.dst, e.es)
    [] e.k = "out" /\ e.op = "cl_applied" -> IF e.comp = "ann" THEN ClApplied(m) ELSE m
    [] e.k = "idle" -> Idle(m)
    [] e.k = "adv"  -> Adv(m, e.d)
    [] e.k = "exc"  -> Fail(m, "exception")
    [] OTHER -> m
=============================================================================
