---------------------------- MODULE Mon_C05 ----------------------------
(* Property monitor for C05 -- "Discovery listeners see a truthful, strictly alternating
   service history".  A pure fold over the OBSERVABLE event alphabet only (DESIGN §2):

     in  rx    src mc sid rb uc es=<<[ty, svc, ttl]...>>   a decodable SD datagram arrived
     in  api   op \in {watch, unwatch, connlost}  lst flt  application calls
     out offered / stopped   lst svc src                    listener callbacks
     idle                                                   the loop has nothing left to run now
     adv d                                                  virtual time passes

   The monitor keeps its own model of what should be held (ghost `live`), computed from the
   inputs alone: an offer is live from its arrival for ttl ticks unless withdrawn by a
   stop-offer, by reboot evidence (rule of C07, evaluated here, not taken from the code) or by
   connection loss.  It never looks at the implementation's or the system spec's state.      *)
EXTENDS Naturals, Sequences, FiniteSets, TLC

FOREVER == 16777215
Range(s) == {s[i] : i \in DOMAIN s}

\* cfg: [srcs, svcs, lsts : Seq(STRING), match : [filterName -> Seq(svc)]]
MonInit(cfg) ==
  LET Src == Range(cfg.srcs)  Svc == Range(cfg.svcs)  Lst == Range(cfg.lsts) IN
  [ cfg   |-> cfg,
    sess  |-> [k \in Src \X BOOLEAN |-> <<FALSE, FALSE, 0>>],   \* known, flag, session id
    live  |-> [k \in Src \X Svc |-> 0],                         \* remaining life, FOREVER = infinite
    last  |-> [k \in Lst \X Svc \X Src |-> "none"],
    reg   |-> [l \in Lst |-> {}],                               \* filters the listener is registered under
    owed  |-> {},                                               \* <<lst, svc, src>> that must read "offered" at idle
    pend  |-> {},                                               \* stops owed before offers of a reboot message
    cl    |-> FALSE,                                            \* connection loss reported, loop not yet idle
    bad   |-> "", at |-> 0, n |-> 0 ]

Src(m) == Range(m.cfg.srcs)
Svc(m) == Range(m.cfg.svcs)
Lst(m) == Range(m.cfg.lsts)
Matches(m, f, s) == \E i \in DOMAIN m.cfg.match[f] : m.cfg.match[f][i] = s
Hears(m, l, s) == \E f \in m.reg[l] : Matches(m, f, s)        \* l is registered with a filter accepting s
Watched(m, s) == \E l \in Lst(m) : Hears(m, l, s)

Fail(m, clause) == IF m.bad = "" THEN [m EXCEPT !.bad = clause, !.at = m.n] ELSE m

Withdraw(m, ks) ==   \* the offers ks (pairs <<src, svc>>) are no longer live
  [m EXCEPT !.live = [k \in DOMAIN @ |-> IF k \in ks THEN 0 ELSE @[k]],
            !.owed = {o \in @ : <<o[3], o[2]>> \notin ks}]

\* one offer entry of a message from src (entries of a message without unicast flag are ignored)
Entry(m, src, en) ==
  IF en.ty # "offer" THEN m
  ELSE IF en.ttl = 0 THEN Withdraw(m, {<<src, en.svc>>})
  ELSE [m EXCEPT !.live[<<src, en.svc>>] = en.ttl,
                 \* (the statement does not order a connection loss against datagrams of the same loop
                 \*  iteration: offers arriving before the loop settles create no obligation, DESIGN §9)
                 !.owed = IF m.cl THEN @ ELSE @ \cup {<<l, en.svc, src>> : l \in {x \in Lst(m) : Hears(m, x, en.svc)}}]

RECURSIVE Entries(_, _, _, _)
Entries(m, src, es, i) == IF i > Len(es) THEN m ELSE Entries(Entry(m, src, es[i]), src, es, i + 1)

Rx(m, e) ==
  LET k    == <<e.src, e.mc>>
      old  == m.sess[k]
      rebt == old[1] /\ e.rb /\ (~old[2] \/ old[3] >= e.sid)
      m1   == [m EXCEPT !.sess[k] = <<TRUE, e.rb, e.sid>>]
      m2   == IF rebt
              THEN [Withdraw(m1, {<<e.src, s>> : s \in Svc(m)})
                      EXCEPT !.pend = @ \cup {q \in Lst(m) \X Svc(m) \X {e.src} : m.last[q] = "offered" /\ Hears(m, q[1], q[2])}]
              ELSE m1
  IN IF e.uc THEN Entries(m2, e.src, e.es, 1) ELSE m2

Api(m, e) ==
  CASE e.op = "watch"    -> [m EXCEPT !.reg[e.lst] = @ \cup {e.flt}]
    [] e.op = "unwatch"  -> LET m1 == [m EXCEPT !.reg[e.lst] = @ \ {e.flt}]
                            IN [m1 EXCEPT !.owed = {o \in @ : ~(o[1] = e.lst /\ ~Hears(m1, e.lst, o[2]))},
                                          !.pend = {o \in @ : ~(o[1] = e.lst /\ ~Hears(m1, e.lst, o[2]))}]
    [] e.op = "connlost" -> [Withdraw(m, Src(m) \X Svc(m)) EXCEPT !.pend = {}, !.cl = TRUE]
    [] OTHER -> m

Notify(m, e) ==
  LET k == <<e.lst, e.svc, e.src>> IN
  IF e.op = "offered"
  THEN LET m1 == IF m.last[k] = "offered" THEN Fail(m, "alternation_offered_twice") ELSE m
           m2 == IF \E p \in m.pend : p[1] = e.lst /\ p[3] = e.src
                 THEN Fail(m1, "reboot_offer_before_stop") ELSE m1
       IN [m2 EXCEPT !.last[k] = "offered"]
  ELSE LET m1 == IF m.last[k] # "offered" THEN Fail(m, "alternation_stopped_without_offered") ELSE m
       IN [m1 EXCEPT !.last[k] = "stopped", !.pend = @ \ {k}]

Idle(m) ==
  LET K == Lst(m) \X Svc(m) \X Src(m)
      stale == {k \in K : m.last[k] = "offered" /\ m.live[<<k[3], k[2]>>] = 0}
      miss  == {k \in m.owed : m.last[k] # "offered"}
  IN IF stale # {} THEN Fail(m, "idle_offered_but_not_live")
     ELSE IF miss # {} THEN Fail(m, "idle_live_but_not_offered")
     ELSE IF m.pend # {} THEN Fail(m, "reboot_stop_never_reported")
     ELSE [m EXCEPT !.cl = FALSE]

Adv(m, d) ==
  LET dec(x) == IF x = FOREVER \/ x = 0 THEN x ELSE IF x > d THEN x - d ELSE 0
      dead   == {k \in DOMAIN m.live : m.live[k] # 0 /\ dec(m.live[k]) = 0}
  IN [Withdraw(m, dead) EXCEPT !.live = [k \in DOMAIN m.live |-> dec(m.live[k])]]

MonStep(m0, e) ==
  LET m == [m0 EXCEPT !.n = @ + 1] IN
  CASE e.k = "in" /\ e.op = "rx"  -> Rx(m, e)
    [] e.k = "in" /\ e.op # "rx"  -> Api(m, e)
    [] e.k = "out" /\ e.op \in {"offered", "stopped"} -> Notify(m, e)
    [] e.k = "out" /\ e.op = "cl_applied" -> IF e.comp = "disc" THEN [m EXCEPT !.cl = FALSE] ELSE m
    [] e.k = "idle" -> Idle(m)
    [] e.k = "adv"  -> Adv(m, e.d)
    [] e.k = "exc"  -> Fail(m, "exception")
    [] OTHER -> m
=============================================================================
