------------------------------ MODULE SD2Trace ------------------------------
(* Is a run of the two REAL stacks on the harness network (harness/net2.py) a behaviour of SD2.tla ?

   A trace lists, per visited instant, the disturbances applied at its beginning and the observable outputs of
   that instant: datagrams on the wire (sender, multicast?, entry types and TTLs), the watcher's offered / stopped,
   the offerer's subscribed / unsubscribed, one-shot disturbances consumed.  Disturbances are applied exactly as
   logged; the steps of the two event loops (any interleaving), the order of simultaneously due timers and instants
   at which nothing observable happens are inferred.  The outputs of an instant are compared as a bag (the harness
   runs the two loops in rounds, the specification interleaves them freely).  Acceptance = the last logged instant
   has been matched.                                                                                           *)
EXTENDS SD2, Json, IOUtils

Traces == ndJsonDeserialize(IOEnv.TRACE_FILE)
VARIABLES tid, ti, fi, seen
tvars == <<vars2, tid, ti, fi, seen>>
Tk == Traces[tid].ticks
At == ti <= Len(Tk) /\ Tk[ti].t = clk
Exp == IF At THEN Tk[ti].outs ELSE <<>>
Flt == IF At THEN Tk[ti].faults ELSE <<>>

OKey(o) ==
  CASE o.k = "exc" -> <<"exc">>
    [] o.op = "wire" -> <<"wire", o.node, o.mc, o.es>>
    [] o.op = "fault" -> <<"fault", o.kind>>
    [] OTHER -> <<o.op, o.node>>
Count(q, x) == Cardinality({i \in DOMAIN q : q[i] = x})
SubBag(a, b) == \A x \in Range(a) : Count(a, x) <= Count(b, x)
BagEq(a, b) == Len(a) = Len(b) /\ SubBag(a, b)

TInit == /\ tid \in 1..Len(Traces) /\ Init2 /\ ti = 1 /\ fi = 0 /\ seen = <<>>

\* the disturbances of this instant, in the logged order, before anything runs
TFault ==
  /\ fi < Len(Flt)
  /\ LET f == Flt[fi + 1] IN
       CASE f.kind = "crash"    -> Crash(f.node)
         [] f.kind = "restart"  -> Restart(f.node)
         [] f.kind = "stop"     -> Stop(f.node)
         [] f.kind = "start"    -> Start(f.node)
         [] f.kind = "unfind"   -> IF up["wat"] = "down"       \* (logged, but there is no application to make the call)
                                   THEN /\ obs' = <<FaultEv("unfind", "wat")>> /\ nf' = nf + 1
                                        /\ UNCHANGED <<nd, up, net, lossy, pf, clk, fresh>>
                                   ELSE Unfind
         [] f.kind = "loss_on"  -> LossOn
         [] f.kind = "loss_off" -> LossOff
         [] f.kind = "delay"    -> OneShot /\ pf' = <<"delay", f.d>>
         [] OTHER               -> OneShot /\ pf' = <<f.kind>>
  /\ fi' = fi + 1
  /\ UNCHANGED <<tid, ti, seen>>

TNode ==
  /\ fi = Len(Flt)
  /\ \E x \in Nodes : NodePoll(x) \/ NodeRun(x)
  /\ LET outs == SelectSeq(obs', LAMBDA o : o.k \in {"out", "exc"} \/ (o.k = "in" /\ o.op = "fault"))
     IN seen' = seen \o [i \in DOMAIN outs |-> OKey(outs[i])]
  /\ SubBag(seen', Exp)
  /\ UNCHANGED <<tid, ti, fi>>

Matched == AllIdle /\ fi = Len(Flt) /\ BagEq(seen, Exp)
TTick ==
  /\ Matched
  /\ LET nx == IF At THEN ti + 1 ELSE ti IN
       /\ nx <= Len(Tk)
       /\ LET gap == Tk[nx].t - clk IN TickBy(IF Far # 0 /\ Far < gap THEN Far ELSE gap)
       /\ ti' = nx
  /\ fi' = 0 /\ seen' = <<>>
  /\ UNCHANGED tid

TNext == TFault \/ TNode \/ TTick
TSpec == TInit /\ [][TNext]_tvars

\* register tid = number of logged instants matched; verdicts printed at the end
Reached == IF At /\ Matched THEN ti ELSE ti - 1
Progress == TLCSet(tid, IF TLCGet(tid) > Reached THEN TLCGet(tid) ELSE Reached)
Done == \A i \in 1..Len(Traces) :
          PrintT(<<"CONF", i, IF TLCGet(i) = Len(Traces[i].ticks) THEN "ACCEPT" ELSE "REJECT", TLCGet(i), Len(Traces[i].ticks)>>)
ASSUME \A i \in 1..Len(Traces) : TLCSet(i, 0)
=============================================================================
