------------------------------ MODULE MC_Wire ------------------------------
(* The algebraic laws of Wire.tla checked by TLC on an enumerated boundary domain, one state per
   element: encode/decode round trips with arbitrary suffixes, length law, concatenation law,
   canonicalisation (decode o encode o decode = decode) incl. non-canonical inputs.          *)
EXTENDS Wire

Ids == {0, 1, 255, 256, 32767, 32768, 65534, 65535}
Payloads == {<<>>, <<0>>, <<255, 1>>}
Suffixes == {<<>>, <<0>>, <<1, 2, 3>>}
Msgs == [sid : {0, 65535, 4660}, mid : {1, 33024}, cid : {0, 65535}, sess : Ids, pv : {1}, iv : {0, 1, 255},
         mt : MsgTypes, rc : {0, 1, 10}, payload : Payloads]
Addr4 == {<<192, 0, 2, 1>>, <<255, 255, 255, 255>>}
Addr6 == {<<32, 1, 13, 184, 0, 0, 0, 0, 0, 0, 0, 0, 0, 0, 0, 1>>}
Opts == [k : {"ep4", "mc4", "sd4"}, addr : Addr4, proto : {6, 17, 0, 255}, port : {0, 30490, 65535}]
        \cup [k : {"ep6", "mc6", "sd6"}, addr : Addr6, proto : {6, 17, 99}, port : {1, 65535}]
        \cup [k : {"lb"}, prio : {0, 1, 65535}, weight : {0, 65535}]
        \cup [k : {"unk"}, type : {0, 3, 119, 255}, payload : {<<>>, <<0>>, <<7, 8, 9>>}]
        \cup {[k |-> "cfg", items |-> it] : it \in {<<>>, <<[key |-> <<97>>, has |-> FALSE, val |-> <<>>]>>,
                                                    <<[key |-> <<97, 98>>, has |-> TRUE, val |-> <<>>]>>,
                                                    <<[key |-> <<107>>, has |-> TRUE, val |-> <<118, 61, 119>>],
                                                      [key |-> <<>>, has |-> TRUE, val |-> <<120>>]>>}}
Entries == [ty : {0, 1}, oi1 : {0, 1, 255}, oi2 : {0, 3}, no1 : {0, 1, 15}, no2 : {0, 15}, sid : {0, 65535}, iid : {1, 65535},
            maj : {0, 255}, ttl : {0, 3, 16777215}, v : {<<0, 0>>, <<65535, 65535>>, <<1, 2>>}]
           \cup [ty : {6, 7}, oi1 : {0, 2}, oi2 : {0}, no1 : {0, 1}, no2 : {0, 2}, sid : {4660}, iid : {1}, maj : {1},
                 ttl : {0, 16777215}, v : {<<0, 1>>, <<15, 65535>>}]
SmallOpts == {[k |-> "ep4", addr |-> <<192, 0, 2, 1>>, proto |-> 17, port |-> 30490], [k |-> "lb", prio |-> 1, weight |-> 2],
              [k |-> "unk", type |-> 119, payload |-> <<0, 5>>]}
SmallEntries(n) == {e \in [ty : {1, 6}, oi1 : 0..2, oi2 : 0..2, no1 : 0..2, no2 : 0..1, sid : {4660}, iid : {1}, maj : {1},
                           ttl : {3}, v : {<<0, 1>>}] : e.oi1 + e.no1 <= n /\ e.oi2 + e.no2 <= n}
SDs == UNION {{[rb |-> r, uc |-> u, fl |-> f, es |-> es, opts |-> os] :
                 r \in BOOLEAN, u \in {TRUE}, f \in {0, 63}, es \in {<<>>} \cup {<<e>> : e \in SmallEntries(Len(os))}
                                                                     \cup {<<e1, [e1 EXCEPT !.ty = 1, !.oi1 = 0, !.no1 = 0]>> : e1 \in SmallEntries(Len(os))}}
              : os \in {<<>>, <<CHOOSE o \in SmallOpts : o.k = "lb">>, <<CHOOSE o \in SmallOpts : o.k = "ep4", CHOOSE o \in SmallOpts : o.k = "unk">>}}

Domain == {<<"msg", m>> : m \in Msgs} \cup {<<"opt", o>> : o \in Opts} \cup {<<"entry", e>> : e \in Entries}
          \cup {<<"sd", d>> : d \in SDs}

VARIABLE x
Init == x \in Domain
Next == UNCHANGED x
Spec == Init /\ [][Next]_x

MsgLaws(m) ==
  /\ Len(EncMsg(m)) = 16 + Len(m.payload)
  /\ \A s \in Suffixes : LET d == DecMsg(EncMsg(m) \o s) IN d.ok /\ d.msg = m /\ d.rest = s /\ d.used = Len(EncMsg(m))
  /\ DecAll(EncMsg(m) \o EncMsg([m EXCEPT !.sess = 7]) \o EncMsg(m)).msgs = <<m, [m EXCEPT !.sess = 7], m>>
  /\ ~DecMsg(SubSeq(EncMsg(m), 1, Len(EncMsg(m)) - 1)).ok                           \* every proper prefix is rejected
OptLaws(o) ==
  /\ \A s \in Suffixes : LET d == DecOption(EncOption(o) \o s) IN d.ok /\ d.opt = o /\ d.rest = s
  /\ EncOption(DecOption(EncOption(o)).opt) = EncOption(o)
EntryLaws(e) ==
  /\ Len(EncEntry(e)) = 16
  /\ \A s \in Suffixes : LET d == DecEntry(EncEntry(e) \o s, 255 + 15) IN d.ok /\ d.e = e /\ d.rest = s
  /\ ~DecEntry(EncEntry(e), 0).ok <=> (e.oi1 + e.no1 > 0 \/ e.oi2 + e.no2 > 0)
SDLaws(d) ==
  /\ \A s \in Suffixes : LET r == DecSD(EncSD(d) \o s) IN r.ok /\ r.sd = d /\ r.rest = s
  /\ ValidLayout(Resolve(d), EncSD(d))
Laws == CASE x[1] = "msg" -> MsgLaws(x[2]) [] x[1] = "opt" -> OptLaws(x[2]) [] x[1] = "entry" -> EntryLaws(x[2])
          [] x[1] = "sd" -> SDLaws(x[2])
=============================================================================
