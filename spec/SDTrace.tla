------------------------------ MODULE SDTrace ------------------------------
(* Mode 4 (DESIGN §5): is a trace recorded from the real code a behaviour of SD.tla ?

   A batch of traces (ndjson, one per line) is validated in one TLC run: `tid` is chosen in
   the initial state, `ln` is the next unmatched line, `now` the virtual time.  Logged INPUTS
   enable exactly the matching environment step at the logged time; logged OUTPUTS must be
   produced by the callback that the loop model runs next (compared as a bag per callback,
   because fan-out order inside one callback is a hash order); Poll, silent callbacks and the
   passing of time are not logged and are inferred.  Acceptance = every line consumed.     *)
EXTENDS SD, Json, IOUtils

Traces == ndJsonDeserialize(IOEnv.TRACE_FILE)
VARIABLES tid, ln, now
tvars == <<s, tid, ln, now>>
Tr == Traces[tid].ev
More == ln <= Len(Tr)

TInit == /\ tid \in 1..Len(Traces) /\ ln = 1 /\ now = 0
         /\ Init

\* ---------------------------------------------------------------- comparing observables
\* the observable content of an output event (what a trace line is compared on)
EntryKey(en) == IF "g" \in DOMAIN en THEN <<"sub", en.g, en.ttl, en.eps>>
                ELSE IF en.ty \in {"sub", "ack"} THEN <<en.ty, en.svc, en.eg, en.ctr, en.ttl>> ELSE <<en.ty, en.svc, en.ttl>>
SubK(x) == <<x.svc, x.eg, x.ctr, x.eps>>
Key(o) ==
  CASE o.k = "rand" -> <<"rand", o.lo, o.hi, o.val>>
    [] o.k = "exc" -> <<"exc">>
    [] o.op \in {"offered", "stopped"} -> <<o.op, o.lst, o.svc, o.src>>
    [] o.op \in {"new", "gone"} -> <<o.op, o.a, o.key>>
    [] o.op = "reboot" -> <<o.op, o.comp, o.a>>
    [] o.op = "ntx" -> <<o.op, o.dst, o.sid, o.ev, o.val>>
    [] o.op = "cl_applied" -> <<o.op, o.comp>>
    [] o.op = "subscribed" -> <<o.op, o.inst, SubK(o.sub), o.src, o.acc>>
    [] o.op = "unsubscribed" -> <<o.op, o.inst, SubK(o.sub), o.src>>
    [] o.op = "tx" -> <<o.op, o.dst, o.sid, o.rb, [i \in DOMAIN o.es |-> EntryKey(o.es[i])]>>
    [] OTHER -> <<o.op>>
BagEq(a, b) ==
  /\ Len(a) = Len(b)
  /\ \A x \in Range(a) \cup Range(b) :
        Cardinality({i \in DOMAIN a : a[i] = x}) = Cardinality({i \in DOMAIN b : b[i] = x})

\* the outputs of one callback equal the next lines of the trace from line `from`, as a bag
MatchFrom(outs, from) ==
  LET n == Len(outs) IN
  /\ from + n - 1 <= Len(Tr)
  /\ \A i \in 1..n : Tr[from + i - 1].k \in {"out", "rand", "exc"} /\ Tr[from + i - 1].t = now
  /\ BagEq([i \in 1..n |-> Key(outs[i])], [i \in 1..n |-> Key(Tr[from + i - 1])])

\* ---------------------------------------------------------------- steps
InsAhead == Cardinality({i \in ln..Len(Tr) : Tr[i].k = "in" /\ Tr[i].t = now})

\* The due timers of an iteration run in ANY order (equal deadlines: heap order).  Enumerating all orders at the poll is
\* factorial; here they are kept as one pool entry at the end of the batch and picked one by one, so that an order which
\* contradicts the logged outputs is abandoned at its first wrong callback.
TPoll ==
  /\ s.todo = 0
  /\ \E n \in 0..InsAhead :
       /\ n > 0 \/ s.ready # <<>> \/ Due(s) # {}
       /\ LET slots == [i \in 1..n |-> [kind |-> "slot"]]
              pool  == IF Due(s) = {} THEN <<>> ELSE <<[kind |-> "duepool", set |-> DueCopies(s)]>>
              s2 == [s EXCEPT !.ready = @ \o slots \o pool, !.timers = @ \ Due(s), !.outs = <<>>]
          IN s' = [s2 EXCEPT !.todo = Len(s.ready) + n + Cardinality(DueCopies(s))]
  /\ UNCHANGED <<tid, ln, now>>

TRun ==
  /\ s.todo > 0
  /\ LET h == Head(s.ready) IN
     \E x \in (IF h.kind = "duepool" THEN h.set ELSE {<<>>}) :
       LET c    == IF h.kind = "duepool" THEN x[1].cb ELSE h
           rest == IF h.kind = "duepool" /\ h.set # {x} THEN <<[h EXCEPT !.set = @ \ {x}]>> \o Tail(s.ready) ELSE Tail(s.ready)
           s0   == [s EXCEPT !.ready = rest, !.todo = @ - 1, !.outs = <<>>]
       IN IF c.kind = "slot"
          THEN /\ More /\ Tr[ln].k = "in" /\ Tr[ln].t = now
               /\ \E ch \in Cfg.randVals, pk \in Cfg.epOrders : s' = [Effect([s0 EXCEPT !.ch = ch, !.pick = pk], [kind |-> "input", e |-> Tr[ln]]) EXCEPT !.ch = 0, !.pick = <<>>]
               /\ MatchFrom(Tail(s'.outs), ln + 1)
               /\ ln' = ln + Len(s'.outs)
          ELSE IF c.kind = "appcall"      \* a call the application queued with call_soon: logged (as an input line) when it runs
          THEN /\ More /\ Tr[ln].k = "in" /\ Tr[ln].t = now
               /\ \A f \in DOMAIN c.e : f \in DOMAIN Tr[ln] /\ Tr[ln][f] = c.e[f]
               /\ \E ch \in Cfg.randVals, pk \in Cfg.epOrders : s' = [Effect([s0 EXCEPT !.ch = ch, !.pick = pk], c) EXCEPT !.ch = 0, !.pick = <<>>]
               /\ MatchFrom(Tail(s'.outs), ln + 1)
               /\ ln' = ln + Len(s'.outs)
          ELSE /\ \E ch \in Cfg.randVals, pk \in Cfg.epOrders : s' = [Effect([s0 EXCEPT !.ch = ch, !.pick = pk], c) EXCEPT !.ch = 0, !.pick = <<>>]
               /\ MatchFrom(s'.outs, ln)
               /\ ln' = ln + Len(s'.outs)
  /\ UNCHANGED <<tid, now>>

\* an environment call made from a timer callback (Cfg.timerPhase): it runs among the due timers of the iteration
TRunTimerInput ==
  /\ Cfg.timerPhase /\ s.todo > 0 /\ Head(s.ready).kind = "duepool"
  /\ More /\ Tr[ln].k = "in" /\ Tr[ln].t = now
  /\ \E ch \in Cfg.randVals, pk \in Cfg.epOrders :
       s' = [Effect([s EXCEPT !.outs = <<>>, !.ch = ch, !.pick = pk], [kind |-> "input", e |-> Tr[ln]]) EXCEPT !.ch = 0, !.pick = <<>>]
  /\ MatchFrom(Tail(s'.outs), ln + 1)
  /\ ln' = ln + Len(s'.outs)
  /\ UNCHANGED <<tid, now>>

\* the loop is idle: optionally matched by a logged idle marker, then one tick passes
TIdleMark ==
  /\ IsIdle(s) /\ More /\ Tr[ln].k = "idle" /\ Tr[ln].t = now
  /\ ln' = ln + 1 /\ UNCHANGED <<s, tid, now>>
\* time passes up to the next timer deadline or the next logged event, whichever is first
TAdvance ==
  /\ IsIdle(s) /\ More /\ Tr[ln].t > now
  /\ LET gap == Tr[ln].t - now
         d   == IF \E x \in s.timers : x.left < gap
                THEN CHOOSE m \in {x.left : x \in s.timers} : \A x \in s.timers : m <= x.left
                ELSE gap
     IN /\ s' = [s EXCEPT !.timers = {[x EXCEPT !.left = @ - d] : x \in @}, !.outs = <<>>]
        /\ now' = now + d
  /\ UNCHANGED <<tid, ln>>

TNext == TPoll \/ TRun \/ TRunTimerInput \/ TIdleMark \/ TAdvance
TSpec == TInit /\ [][TNext]_tvars

\* register tid = furthest line reached for that trace; verdicts printed at the end
Progress == TLCSet(tid, IF TLCGet(tid) > ln THEN TLCGet(tid) ELSE ln)
Done == \A i \in 1..Len(Traces) :
          PrintT(<<"CONF", i, IF TLCGet(i) = Len(Traces[i].ev) + 1 THEN "ACCEPT" ELSE "REJECT",
                   TLCGet(i), Len(Traces[i].ev)>>)
ASSUME \A i \in 1..Len(Traces) : TLCSet(i, 0)
=============================================================================
