------------------------------ MODULE SDCore ------------------------------
(* System specification of the pysomeip service-discovery stack (someip/sd.py) at the
   granularity of ONE asyncio event-loop callback per step (DESIGN §3).

   The whole stack is one record `s`; every callback is a pure operator  s -> s'  so that
   synchronous call chains of the implementation (handle_offer -> TimedStore.refresh ->
   _notify_service_offered -> listener) compose as ordinary operator application, while
   everything the implementation defers (call_soon / call_later / tasks) goes through the
   loop model below.  Nondeterminism is confined to the environment (which input arrives at
   which poll), to the order of timers with equal deadlines, and to random delays.

   Observable events (inputs consumed, outputs produced, idle markers, time steps) are
   appended to s.outs by every step in exactly the format of the traces recorded from the
   real code (DESIGN Appendix C), so that property monitors (Mon_*.tla) and the trace
   specifications (SDTrace.tla) read the same alphabet.

   Deviation switches (constant record Sw) select the AS-SHIPPED behaviour of the pinned
   commit where it differs from the intended design; all FALSE = the design in which the
   properties hold (and which the repaired code follows).

   This module holds the operators (state record -> state record); SD.tla puts ONE stack and an
   arbitrary environment around them, SD2.tla two stacks, a network and a fault budget.          *)
EXTENDS Naturals, Integers, Sequences, FiniteSets, TLC

CONSTANTS
  Match,       \* [filter name -> set of service names]  (wildcard rule: Match.tla / C19)
  Cfg,         \* record of timing configuration (see CfgDefault)
  Sw           \* record of deviation switches

FOREVER == 16777215

\* configuration record: configs write  [field |-> value, ...] @@ CfgDefault
CfgDefault == [ maxId      |-> 3,       \* session ids wrap after maxId (65535 in the code; small in interleaving configs)
                seeReboot  |-> FALSE,   \* reboot_detected calls on the three components are observable
                timerPhase |-> FALSE,   \* environment inputs may also run among the due timers of an iteration
                watch0     |-> <<>>,    \* initial listener registrations
                wkeys0     |-> <<>>,    \* order in which the initial filters were first watched (find entries keep it)
                \* announcer (someip.sd.Timings; integer ticks)
                initMin |-> 0, initMax |-> 0, reps |-> 0, base |-> 1, cyclic |-> 4, annTTL |-> 12,
                collect |-> 0, rrMin |-> 0, rrMax |-> 0,
                randVals |-> {0},      \* values random.uniform may return (clamped into the requested window)
                inst |-> <<>>,         \* [instance -> [svc, egs (declared eventgroups), subs (service names of Subscribe entries it accepts)]]
                ann0 |-> <<>>,         \* instances announced before the run
                findMatch |-> <<>>,    \* [find filter -> set of service names it matches]
                stopTwice |-> FALSE,   \* the environment may stop an already stopped announcer
                subTTL |-> 12, refresh |-> 4, \* SUBSCRIBE_TTL, SUBSCRIBE_REFRESH_INTERVAL (0 = None)
                egs |-> <<>>,          \* [eventgroup name -> [ep |-> name of its local endpoint option]]
                findTTL |-> 3,
                events |-> <<>>, values0 |-> <<>>, egInterval |-> 0,
                epOrders |-> {<<>>},   \* iteration orders of the subscribed-endpoint set a round may use (<<>> = one canonical order)   \* SimpleEventgroup: event ids in order, initial values, cyclic interval
                sess0 |-> <<>>,        \* <<flag, next id>> of the outgoing session counters of a stack that has been up for long (SD2 only)
                autosub |-> <<>>,      \* [listener -> eventgroup]: listeners that are AutoSubscribeServiceListeners
                peers |-> <<>> ]

\* all deviation switches off = the intended design; AsShipped = the pinned commit 06eaa50
AllOff == [ DeferExpiryNotify   |-> FALSE,  \* D1  TimedStore._expired defers its callback
            DeferStopAllNotify  |-> FALSE,  \* D2  stop_all_for_address defers its callbacks
            DeferRebootFanout   |-> FALSE,  \* D3  reboot_detected defers the three components
            IgnoreWhenUnwatched |-> FALSE,  \* D10/D12 handle_offer ignores everything unwatched
            DeferWatchReplay    |-> FALSE,  \* D11 watch/unwatch replay deferred
            DeferHandleOffer    |-> FALSE,  \* D13 offers deferred (harmful once D3 is repaired)
            StaleTimerOnRefresh |-> FALSE,  \* spec mutant: refresh forgets to cancel the old timer
            ForeverGetsTimer    |-> FALSE,  \* spec mutant: the infinite TTL arms a timer
            RebootNeedsSmallerId |-> FALSE, \* spec mutant: '>' instead of '>=' in the reboot rule
            WrapToZero          |-> FALSE,  \* spec mutant: the counter wraps to 0 instead of 1
            EmptySendTakesId    |-> FALSE,  \* spec mutant: an empty send consumes a session id
            FindAnswerIgnoresStop |-> FALSE, \* D4/D4' a queued find answer is sent although the instance was stopped
            NonCyclicKeepsAnswering |-> FALSE, \* D5  stop() never resets _can_answer_offers
            StopTwiceRaises     |-> FALSE,  \* D6  stopping a stopped instance raises RuntimeError
            CancelCollectorsOnStop |-> FALSE, \* spec mutant: stop() cancels the collectors' timers but leaves them open
            AckBeforeListener   |-> FALSE,  \* spec mutant: a rejected subscription is acknowledged positively
            FindIgnoresFound    |-> FALSE,  \* spec mutant: find rounds list every watched filter, found or not
            StopSubNotDeferred  |-> FALSE,  \* spec mutant: StopSubscribe sent at once, overtaking a queued Subscribe
            SubStopForgetsList  |-> FALSE,  \* spec mutant: stopping the subscriber drops the requested subscriptions (nothing to send after start)
            UnsubRemovesAll     |-> FALSE,  \* spec mutant: stop_subscribe_eventgroup drops every request for that eventgroup / server, not one
            QueueLatestWins     |-> FALSE,  \* spec mutant: a queued offer entry replaces a pending one for the same service (StopOffer + Offer -> Offer)
            NotifyOnceConsumesIterator |-> FALSE ] \* D9  notify_once(one-shot iterable): only the first endpoint gets the events
AsShipped == [AllOff EXCEPT !.DeferExpiryNotify = TRUE, !.DeferStopAllNotify = TRUE, !.DeferRebootFanout = TRUE,
                            !.IgnoreWhenUnwatched = TRUE, !.DeferWatchReplay = TRUE, !.DeferHandleOffer = TRUE,
                            !.NotifyOnceConsumesIterator = TRUE,
                            !.FindAnswerIgnoresStop = TRUE, !.NonCyclicKeepsAnswering = TRUE, !.StopTwiceRaises = TRUE]

-----------------------------------------------------------------------------
(* ------------------------------ helpers --------------------------------- *)
Range(f) == {f[x] : x \in DOMAIN f}
Remove(f, k) == [x \in DOMAIN f \ {k} |-> f[x]]
Put(f, k, v) == [x \in DOMAIN f \cup {k} |-> IF x = k THEN v ELSE f[x]]
Get(f, k, d) == IF k \in DOMAIN f THEN f[k] ELSE d

\* every enumeration order of a finite set (used for fan-outs whose order is a hash order)
Perms(S) == {q \in [1..Cardinality(S) -> S] : \A i, j \in DOMAIN q : i # j => q[i] # q[j]}
\* a canonical order (exhaustive configs use it where the monitors are order-insensitive)
RECURSIVE SetToSeq(_)
SetToSeq(S) == IF S = {} THEN <<>> ELSE LET x == CHOOSE x \in S : TRUE IN <<x>> \o SetToSeq(S \ {x})

-----------------------------------------------------------------------------
(* ---------------------------- the event loop ----------------------------- *)
\* s.ready  FIFO of callback records          s.todo   callbacks left in this iteration
\* s.timers set of [left, cb, n] (n = multiplicity; timers carry no identity)
CallSoon(s, cb) == [s EXCEPT !.ready = Append(@, cb)]
CallLater(s, d, cb) ==
  IF \E x \in s.timers : x.left = d /\ x.cb = cb
  THEN [s EXCEPT !.timers = {IF x.left = d /\ x.cb = cb THEN [x EXCEPT !.n = @ + 1] ELSE x : x \in @}]
  ELSE [s EXCEPT !.timers = @ \cup {[left |-> d, cb |-> cb, n |-> 1]}]
\* handle.cancel(): a pending timer disappears; one whose callback was already moved to the ready
\* queue by this iteration's poll stays queued but is skipped when its turn comes (asyncio)
\* (trace validation keeps the due timers of an iteration as one "duepool" entry and orders them lazily: SDTrace.tla)
CancelTimer(s, cb) == [s EXCEPT !.timers = {x \in @ : x.cb # cb},
                                !.ready = [i \in DOMAIN @ |-> IF @[i] = cb THEN [kind |-> "cancelled"]
                                                               ELSE IF @[i].kind = "duepool"
                                                               THEN [@[i] EXCEPT !.set = {IF y[1].cb = cb THEN <<[y[1] EXCEPT !.cb = [kind |-> "cancelled", was |-> cb]], y[2]>> ELSE y : y \in @}]
                                                               ELSE @[i]]]
Out(s, e) == [s EXCEPT !.outs = Append(@, e)]
Due(s) == {x \in s.timers : x.left = 0}
IsIdle(s) == s.ready = <<>> /\ s.todo = 0 /\ Due(s) = {}

-----------------------------------------------------------------------------
(* ------------------------- _SessionStorage (C07) ------------------------- *)
\* s.sessIn : [<<sender, multicast>> -> <<flag, session id>>]
RebootSeen(s, src, mc, rb, sid) ==
  LET k == <<src, mc>> IN
  k \in DOMAIN s.sessIn /\ rb /\ (~s.sessIn[k][1] \/ (s.sessIn[k][2] > 0 /\
      (IF Sw.RebootNeedsSmallerId THEN s.sessIn[k][2] > sid ELSE s.sessIn[k][2] >= sid)))
SessRecord(s, src, mc, rb, sid) == [s EXCEPT !.sessIn = Put(@, <<src, mc>>, <<rb, sid>>)]

\* s.sessOut : [destination -> <<flag, next id>>]   (assign_outgoing: 1..maxId, flag cleared at the wrap)
AssignOut(s, dst) ==
  LET cur == Get(s.sessOut, dst, <<TRUE, 1>>)
      nxt == IF cur[2] >= Cfg.maxId THEN <<FALSE, IF Sw.WrapToZero THEN 0 ELSE 1>> ELSE <<cur[1], cur[2] + 1>>
  IN <<[s EXCEPT !.sessOut = Put(@, dst, nxt)], cur>>
\* ServiceDiscoveryProtocol.send_sd: nothing at all for an empty entry list (C08)
SendSD(s, dst, es) ==
  IF es = <<>> THEN (IF Sw.EmptySendTakesId THEN AssignOut(s, dst)[1] ELSE s)
  ELSE LET r == AssignOut(s, dst)
       IN Out(r[1], [k |-> "out", op |-> "tx", dst |-> dst, sid |-> r[2][2], rb |-> r[2][1], uc |-> TRUE, es |-> es])

-----------------------------------------------------------------------------
(* ---- ServiceSubscriber: the request list (defined here: the auto-subscribe listener calls it) ---- *)
\* s.sub = [alive, task, list]   list: Seq of <<eventgroup, server>> in request order (subscribeentries)
SubEntry(g, ttl) == [ty |-> "sub", g |-> g, ttl |-> ttl, eps |-> <<Cfg.egs[g].ep>>]
SendSubs(s, ttl, srv, gs) == SendSD(s, srv, [i \in DOMAIN gs |-> SubEntry(gs[i], ttl)])
SubscribeEg(s, g, srv) ==
  LET s1 == [s EXCEPT !.sub.list = Append(@, <<g, srv>>)]
  IN IF s.sub.alive THEN CallSoon(s1, [kind |-> "sub_send", ttl |-> Cfg.subTTL, srv |-> srv, gs |-> <<g>>]) ELSE s1
UnsubscribeEg(s, g, srv) ==
  IF ~\E n \in DOMAIN s.sub.list : s.sub.list[n] = <<g, srv>> THEN s
  ELSE LET n == CHOOSE n \in DOMAIN s.sub.list : s.sub.list[n] = <<g, srv>> /\ \A m \in 1..(n - 1) : s.sub.list[m] # <<g, srv>>
           s1 == [s EXCEPT !.sub.list = IF Sw.UnsubRemovesAll THEN SelectSeq(@, LAMBDA p : p # <<g, srv>>)
                                          ELSE SubSeq(@, 1, n - 1) \o SubSeq(@, n + 1, Len(@))]
       IN IF Sw.StopSubNotDeferred THEN SendSubs(s1, 0, srv, <<g>>)
          ELSE CallSoon(s1, [kind |-> "sub_send", ttl |-> 0, srv |-> srv, gs |-> <<g>>])

-----------------------------------------------------------------------------
(* ----------------------- discovery: registrations ------------------------ *)
\* s.watch : [listener -> set of filter names]  ("ALL" = watch_all_services)
Hears(s, l, svc) == \E f \in s.watch[l] : svc \in Match[f]
Listeners(s, svc) == {l \in DOMAIN s.watch : Hears(s, l, svc)}
\* is_watching_service: some watch-all listener, or a filter that was EVER watched matches
\* (stop_watch_service leaves the filter key behind with an empty listener set)
IsWatching(s, svc) == (\E l \in DOMAIN s.watch : "ALL" \in s.watch[l]) \/ (\E f \in Range(s.wkeys) : svc \in Match[f])

RECURSIVE NotifySeq(_, _, _, _, _)
NotifySeq(s, q, what, svc, src) ==
  IF q = <<>> THEN s
  ELSE LET l == Head(q)[1] IN
       NotifySeq(IF l \in DOMAIN Cfg.autosub         \* AutoSubscribeServiceListener (find_subscribe_eventgroup)
                 THEN (IF what = "offered" THEN SubscribeEg(s, Cfg.autosub[l], src) ELSE UnsubscribeEg(s, Cfg.autosub[l], src))
                 ELSE Out(s, [k |-> "out", op |-> what, lst |-> l, svc |-> svc, src |-> src]),
                 Tail(q), what, svc, src)
\* _notify_service_offered / _notify_service_stopped: synchronous fan-out, once per (matching filter,
\* listener registered under it) -- a listener registered under two matching filters is told twice --
\* to the listeners registered NOW (order = dict / set order: canonical here, compared as a bag by SDTrace)
NotifyFound(s, what, svc, src) ==
  NotifySeq(s, SetToSeq({p \in (DOMAIN s.watch) \X ((DOMAIN Match) \cup {"ALL"}) : p[2] \in s.watch[p[1]] /\ svc \in Match[p[2]]}),
            what, svc, src)

-----------------------------------------------------------------------------
(* ------------------------- TimedStore (C09) ------------------------------ *)
\* s.store : [store name -> set of <<address, key>>]; the expiry timers live in s.timers and are
\* identified by their content (one per entry).  Stores: "found" (ServiceDiscover.found_services),
\* "ts" (a bare TimedStore driven directly, C09), <<"subs", i>> (ServiceInstance.subscriptions).
ExpTimer(st, a, key) == [kind |-> "expired", store |-> st, a |-> a, key |-> key]
Has(s, st, a, key) == <<a, key>> \in s.store[st]

\* Iteration order of the store (a dict of dicts: addresses in the order of their first use, entries of one
\* address in insertion order, a refreshed entry moves to the end).  It is observable only where the
\* notifications of one loop over the store are deferred into separate callbacks, which the as-shipped
\* code does (D2, D11): it is tracked only then; otherwise the outputs of one callback are compared as a bag.
Track == Sw.DeferWatchReplay \/ Sw.DeferStopAllNotify
OrdTouch(s, st, a) == IF ~Track \/ a \in Range(s.aord[st]) THEN s ELSE [s EXCEPT !.aord[st] = Append(@, a)]
OrdAdd(s, st, a, key) ==
  IF ~Track THEN s
  ELSE [OrdTouch(s, st, a) EXCEPT !.sord[st] = Append(SelectSeq(@, LAMBDA p : p # <<a, key>>), <<a, key>>)]
OrdDel(s, st, k) == IF ~Track THEN s ELSE [OrdTouch(s, st, k[1]) EXCEPT !.sord[st] = SelectSeq(@, LAMBDA p : p # k)]
RECURSIVE IterFrom(_, _, _)
IterFrom(s, st, as) == IF as = <<>> THEN <<>> ELSE SelectSeq(s.sord[st], LAMBDA p : p[1] = Head(as)) \o IterFrom(s, st, Tail(as))
Iter(s, st) == IF ~Track THEN SetToSeq(s.store[st]) ELSE IterFrom(s, st, s.aord[st])
IterSel(s, st, P(_)) == SelectSeq(Iter(s, st), P)

\* callback_new / callback_expired of the store
TSNew(s, st, a, key) ==
  CASE st = "found" -> NotifyFound(s, "offered", key, a)
    [] st = "ts"    -> Out(s, [k |-> "out", op |-> "new", a |-> a, key |-> key])
    [] OTHER        -> Out(s, [k |-> "out", op |-> "subscribed", inst |-> st, sub |-> key, src |-> a, acc |-> TRUE])
TSGone(s, st, a, key) ==
  CASE st = "found" -> NotifyFound(s, "stopped", key, a)
    [] st = "ts"    -> Out(s, [k |-> "out", op |-> "gone", a |-> a, key |-> key])
    [] OTHER        -> Out(s, [k |-> "out", op |-> "unsubscribed", inst |-> st, sub |-> key, src |-> a])

\* TimedStore.refresh: a new entry is reported, an old timer cancelled; the new deadline replaces
\* the old one (no timer at all for the infinite TTL)
TSRefresh(s, st, a, key, ttl) ==
  LET s1 == IF Has(s, st, a, key)
            THEN (IF Sw.StaleTimerOnRefresh THEN s ELSE CancelTimer(s, ExpTimer(st, a, key)))
            ELSE TSNew(s, st, a, key)
      s2 == OrdAdd([s1 EXCEPT !.store[st] = @ \cup {<<a, key>>}], st, a, key)
  IN IF ttl = FOREVER /\ ~Sw.ForeverGetsTimer THEN s2 ELSE CallLater(s2, ttl, ExpTimer(st, a, key))

\* TimedStore.stop: immediate notification
TSStop(s, st, a, key) ==
  IF ~Has(s, st, a, key) THEN OrdTouch(s, st, a)
  ELSE TSGone(CancelTimer(OrdDel([s EXCEPT !.store[st] = @ \ {<<a, key>>}], st, <<a, key>>), ExpTimer(st, a, key)), st, a, key)

\* TimedStore._expired (timer callback).  As shipped the notification is deferred (D1).
TSExpired(s, st, a, key) ==
  IF ~Has(s, st, a, key) THEN s
  ELSE LET s1 == OrdDel([s EXCEPT !.store[st] = @ \ {<<a, key>>}], st, <<a, key>>) IN
       IF Sw.DeferExpiryNotify
       THEN CallSoon(s1, [kind |-> "notify_gone", store |-> st, a |-> a, key |-> key])
       ELSE TSGone(s1, st, a, key)

RECURSIVE StopSeq(_, _, _, _)
StopSeq(s, st, q, defer) ==
  IF q = <<>> THEN s
  ELSE LET k == Head(q)
           s1 == CancelTimer(OrdDel([s EXCEPT !.store[st] = @ \ {k}], st, k), ExpTimer(st, k[1], k[2]))
       IN StopSeq(IF defer THEN CallSoon(s1, [kind |-> "notify_gone", store |-> st, a |-> k[1], key |-> k[2]])
                  ELSE TSGone(s1, st, k[1], k[2]), st, Tail(q), defer)
\* TimedStore.stop_all_for_address / stop_all.  As shipped the notifications are deferred (D2).
TSStopAddr(s, st, a) == StopSeq(OrdTouch(s, st, a), st, IterSel(s, st, LAMBDA k : k[1] = a), Sw.DeferStopAllNotify)
TSStopAll(s, st) == LET r == StopSeq(s, st, Iter(s, st), Sw.DeferStopAllNotify) IN IF Track THEN [r EXCEPT !.aord[st] = <<>>] ELSE r
\* TimedStore.stop_all_matching: immediate, via stop()
TSStopMatching(s, st, keys) == StopSeq(s, st, IterSel(s, st, LAMBDA k : k[2] \in keys), FALSE)

FoundRefresh(s, src, svc, ttl) == TSRefresh(s, "found", src, svc, ttl)
FoundStop(s, src, svc) == TSStop(s, "found", src, svc)
FoundStopAddr(s, src) == TSStopAddr(s, "found", src)
FoundStopAll(s) == TSStopAll(s, "found")

-----------------------------------------------------------------------------
(* ------------------------------ discovery -------------------------------- *)
\* ServiceDiscover.handle_offer (its own callback: queued by sd_message_received).
\* Intended: a stop-offer always withdraws, and an offer nobody is watching (any more) must not
\* leave a stale record behind.  As shipped (D10/D12) both are ignored when nobody is watching.
HandleOffer(s, src, en) ==
  IF ~IsWatching(s, en.svc)
  THEN IF Sw.IgnoreWhenUnwatched THEN s ELSE FoundStop(s, src, en.svc)
  ELSE IF en.ttl = 0 THEN FoundStop(s, src, en.svc) ELSE FoundRefresh(s, src, en.svc, en.ttl)

\* watch_service / watch_all_services: register, replay what is already known
RECURSIVE ReplaySeq(_, _, _, _, _)
ReplaySeq(s, q, what, l, defer) ==
  IF q = <<>> THEN s
  ELSE LET k == Head(q)
           e == [k |-> "out", op |-> what, lst |-> l, svc |-> k[2], src |-> k[1]]
       IN ReplaySeq(IF defer THEN CallSoon(s, [kind |-> "emit", e |-> e])
                    ELSE IF l \in DOMAIN Cfg.autosub     \* an AutoSubscribeServiceListener reacts to the replay like to a notification
                    THEN (IF what = "offered" THEN SubscribeEg(s, Cfg.autosub[l], k[1]) ELSE UnsubscribeEg(s, Cfg.autosub[l], k[1]))
                    ELSE Out(s, e),
                    Tail(q), what, l, defer)
Watch(s, l, f) ==
  LET s1 == [s EXCEPT !.watch[l] = @ \cup {f}, !.wkeys = IF f = "ALL" \/ f \in Range(@) THEN @ ELSE Append(@, f)]   \* dict keys keep insertion order
  IN ReplaySeq(s1, IterSel(s, "found", LAMBDA k : k[2] \in Match[f]), "offered", l, Sw.DeferWatchReplay)
Unwatch(s, l, f) ==
  LET s1 == [s EXCEPT !.watch[l] = @ \ {f}]
  IN ReplaySeq(s1, IterSel(s, "found", LAMBDA k : k[2] \in Match[f]), "stopped", l, Sw.DeferWatchReplay)

-----------------------------------------------------------------------------
(* ------------- announcer: SendCollector, ServiceInstance, offer task ------ *)
\* s.started            ServiceAnnouncer.started
\* s.ann                announcing_services (list, in order)
\* s.inst[i]            [task |-> id of the running offer task or 0, can |-> _can_answer_offers]
\* s.tasks[id]          [st \in {created, sleeping, wakeq}, pc, i, must, inst]   (finished tasks are dropped)
\* s.queues[dst]        items of the open SendCollector for dst (no entry = no open collector)
\* s.store[i]           ServiceInstance.subscriptions (TimedStore), keys = subscription identities
Pow2(i) == CASE i = 0 -> 1 [] i = 1 -> 2 [] i = 2 -> 4 [] i = 3 -> 8 [] i = 4 -> 16 [] OTHER -> 32
Clamp(x, lo, hi) == IF x < lo THEN lo ELSE IF x > hi THEN hi ELSE x
\* random.uniform(lo, hi): the step's choice s.ch clamped into the window; the request is observable
Rand(s, lo, hi) == Clamp(s.ch, lo, hi)
RandObs(s, lo, hi) == Out(s, [k |-> "rand", lo |-> lo, hi |-> hi, val |-> Rand(s, lo, hi)])

\* ServiceAnnouncer.queue_send: immediate with a zero collection timeout, else per-destination collector
QueueSend(s, dst, en) ==
  IF Cfg.collect = 0 THEN SendSD(s, dst, <<en>>)
  ELSE IF dst \in DOMAIN s.queues
       THEN [s EXCEPT !.queues[dst] = Append(IF Sw.QueueLatestWins /\ en.ty = "offer"
                                             THEN SelectSeq(@, LAMBDA x : ~(x.ty = "offer" /\ x.svc = en.svc)) ELSE @, en)]
  ELSE CallLater([s EXCEPT !.queues = Put(@, dst, <<en>>)], Cfg.collect, [kind |-> "collect", dst |-> dst])
\* SendCollector._handle_timeout
Collect(s, dst) ==
  IF dst \notin DOMAIN s.queues THEN s
  ELSE SendSD([s EXCEPT !.queues = Remove(@, dst)], dst, s.queues[dst])

OfferEntry(i, ttl) == [ty |-> "offer", svc |-> Cfg.inst[i].svc, ttl |-> ttl]
\* (an instance may have been constructed with a Timings object of its own: Cfg.inst[i].ttl)
InstTTL(i) == IF "ttl" \in DOMAIN Cfg.inst[i] THEN Cfg.inst[i].ttl ELSE Cfg.annTTL
SendOffer(s, i, dst, stop) == QueueSend(s, dst, OfferEntry(i, IF stop THEN 0 ELSE InstTTL(i)))

\* ---- task plumbing (DESIGN §3): create_task -> first step next iteration; sleep(d>0) -> timer
\*      callback "wake" makes the task runnable, its continuation runs one iteration later;
\*      sleep(0) -> one hop; cancel() while sleeping -> woken with CancelledError next iteration;
\*      cancel() while the wake-up is queued / before the first step -> delivered at that step
NewTaskId(s) == CHOOSE n \in 1..(Cardinality(DOMAIN s.tasks) + 1) : n \notin DOMAIN s.tasks
Sleep(s, tk, dl, pc, i) ==
  IF dl = 0
  THEN CallSoon([s EXCEPT !.tasks[tk] = [@ EXCEPT !.st = "wakeq", !.pc = pc, !.i = i]], [kind |-> "step", tk |-> tk])
  ELSE CallLater([s EXCEPT !.tasks[tk] = [@ EXCEPT !.st = "sleeping", !.pc = pc, !.i = i]], dl, [kind |-> "wake", tk |-> tk])
TaskDone(s, tk) == [s EXCEPT !.tasks = Remove(@, tk)]
Wake(s, tk) ==
  IF tk \in DOMAIN s.tasks /\ s.tasks[tk].st = "sleeping"
  THEN CallSoon([s EXCEPT !.tasks[tk].st = "wakeq"], [kind |-> "step", tk |-> tk]) ELSE s
CancelTask(s, tk) ==
  IF tk \notin DOMAIN s.tasks THEN s
  ELSE IF s.tasks[tk].st = "sleeping"
  THEN CallSoon(CancelTimer([s EXCEPT !.tasks[tk] = [@ EXCEPT !.must = TRUE, !.st = "wakeq"]], [kind |-> "wake", tk |-> tk]),
                [kind |-> "step", tk |-> tk])
  ELSE [s EXCEPT !.tasks[tk].must = TRUE]

\* ---- ServiceInstance._offer_task: pc 0 initial wait, 1 first offer, 2 repetition i, 3 cyclic
AfterReps(s, tk) == IF Cfg.cyclic = 0 THEN TaskDone(s, tk) ELSE Sleep(s, tk, Cfg.cyclic, 3, 0)
RepOrAfter(s, tk, i) == IF i < Cfg.reps THEN Sleep(s, tk, Pow2(i) * Cfg.base, 2, i) ELSE AfterReps(s, tk)
OfferStep(s, tk) ==
  IF tk \notin DOMAIN s.tasks THEN s
  ELSE LET t == s.tasks[tk]  i == t.inst IN
  IF t.must
  THEN IF t.pc \in {0, 1} THEN TaskDone(s, tk)              \* CancelledError outside the try: nothing sent
       ELSE LET s1 == [s EXCEPT !.inst[i].can = FALSE]      \* except CancelledError / finally
            IN TaskDone(IF Cfg.cyclic # 0 THEN SendOffer(s1, i, "mc", TRUE) ELSE s1, tk)
  ELSE CASE t.pc = 0 -> Sleep(RandObs(s, Cfg.initMin, Cfg.initMax), tk, Rand(s, Cfg.initMin, Cfg.initMax), 1, 0)
         [] t.pc = 1 -> RepOrAfter([SendOffer(s, i, "mc", FALSE) EXCEPT !.inst[i].can = TRUE], tk, 0)
         [] t.pc = 2 -> RepOrAfter(SendOffer(s, i, "mc", FALSE), tk, t.i + 1)
         [] t.pc = 3 -> Sleep(SendOffer(s, i, "mc", FALSE), tk, Cfg.cyclic, 3, 0)

Exc(s, what) == Out(s, [k |-> "exc", what |-> what])

\* ServiceInstance.start / stop
InstStart(s, i) ==
  IF s.inst[i].task # 0 THEN Exc(s, "task already started")
  ELSE LET tk == NewTaskId(s) IN
       CallSoon([s EXCEPT !.inst[i] = [task |-> tk, can |-> FALSE],
                          !.tasks = Put(@, tk, [st |-> "created", pc |-> 0, i |-> 0, must |-> FALSE, inst |-> i, kind |-> "offer"])],
                [kind |-> "step", tk |-> tk])
InstStopBody(s, i) ==
  LET s1 == CancelTask(s, s.inst[i].task)
      s2 == [s1 EXCEPT !.inst[i].task = 0,
                       !.inst[i].can = IF Sw.NonCyclicKeepsAnswering THEN @ ELSE FALSE]   \* D5 as shipped: never reset
      s3 == IF Cfg.cyclic = 0 THEN SendOffer(s2, i, "mc", TRUE) ELSE s2
  IN TSStopAll(s3, i)
\* result: <<state, raised>>.  As shipped a second stop raises RuntimeError (D6); intended: no-op.
InstStop(s, i) ==
  IF s.inst[i].task = 0
  THEN IF Sw.StopTwiceRaises THEN <<Exc(s, "task already stopped"), TRUE>> ELSE <<s, FALSE>>
  ELSE <<InstStopBody(s, i), FALSE>>

RECURSIVE StartAll(_, _)
StartAll(s, q) == IF q = <<>> THEN s ELSE StartAll(InstStart(s, Head(q)), Tail(q))
RECURSIVE StopAllInst(_, _)
StopAllInst(s, q) ==      \* <<state, raised>>: an exception aborts the loop over the instances
  IF q = <<>> THEN <<s, FALSE>>
  ELSE LET r == InstStop(s, Head(q)) IN IF r[2] THEN r ELSE StopAllInst(r[1], Tail(q))
AnnStart(s) == [StartAll(s, s.ann) EXCEPT !.started = TRUE]
AnnStop(s0) ==
  LET s == IF Sw.CancelCollectorsOnStop THEN [s0 EXCEPT !.timers = {x \in @ : x.cb.kind # "collect"}] ELSE s0
      r == StopAllInst(s, s.ann)
  IN IF r[2] THEN r[1] ELSE [r[1] EXCEPT !.started = FALSE]
Announce(s, i) ==
  LET s1 == IF s.started THEN InstStart(s, i) ELSE s IN [s1 EXCEPT !.ann = Append(@, i)]
StopAnnounce(s, i) ==
  IF ~\E n \in DOMAIN s.ann : s.ann[n] = i THEN Exc(s, "not announcing")
  ELSE LET n  == CHOOSE n \in DOMAIN s.ann : s.ann[n] = i /\ \A m \in 1..(n - 1) : s.ann[m] # i
           s1 == [s EXCEPT !.ann = SubSeq(@, 1, n - 1) \o SubSeq(@, n + 1, Len(@))]
       IN IF s.started THEN InstStop(s1, i)[1] ELSE s1

\* ---- FindService: matching, ready instances answer by unicast; multicast requests after a delay.
\*      A delayed answer belongs to the incarnation that was asked: intended design drops it when
\*      the instance was stopped meanwhile (as shipped it is still sent: D4).
AnswerFind(s, i, dst) ==
  IF ~Sw.FindAnswerIgnoresStop /\ (s.inst[i].task = 0 \/ ~s.inst[i].can) THEN s
  ELSE SendOffer(s, i, dst, FALSE)
RECURSIVE AnswerSeq(_, _, _, _, _)
AnswerSeq(s, q, dst, mc, dl) ==
  IF q = <<>> THEN s
  ELSE LET cb == [kind |-> "answer", inst |-> Head(q), dst |-> dst]
       IN AnswerSeq(IF mc THEN CallLater(s, dl, cb) ELSE CallSoon(s, cb), Tail(q), dst, mc, dl)
HandleFind(s, src, mc, en) ==
  LET hit == SelectSeq(s.ann, LAMBDA i : s.inst[i].can /\ Cfg.inst[i].svc \in Cfg.findMatch[en.svc])
  IN IF hit = <<>> THEN s
     ELSE IF mc THEN AnswerSeq(RandObs(s, Cfg.rrMin, Cfg.rrMax), hit, src, TRUE, Rand(s, Cfg.rrMin, Cfg.rrMax))
     ELSE AnswerSeq(s, hit, src, FALSE, 0)

\* ---- Subscribe: every announcing instance is asked in list order; nobody matched -> Nack
AckEntry(en, ttl) == [ty |-> "ack", svc |-> en.svc, eg |-> en.eg, ctr |-> en.ctr, ttl |-> ttl]
SubKey(en) == [svc |-> en.svc, eg |-> en.eg, ctr |-> en.ctr, eps |-> en.eps]
InstMatchesSub(i, en) == en.svc \in Cfg.inst[i].subs /\ en.eg \in Cfg.inst[i].egs
\* ServiceInstance.handle_subscribe -> <<state, matched>>
InstSubscribe(s, i, src, en) ==
  IF s.inst[i].task = 0 \/ ~InstMatchesSub(i, en) THEN <<s, FALSE>>
  ELSE IF en.ttl = 0 THEN <<TSStop(s, i, src, SubKey(en)), TRUE>>
  ELSE IF ~Has(s, i, src, SubKey(en)) /\ ~en.acc                       \* listener raises NakSubscription
       THEN <<QueueSend(Out(s, [k |-> "out", op |-> "subscribed", inst |-> i, sub |-> SubKey(en), src |-> src, acc |-> FALSE]),
                        src, AckEntry(en, IF Sw.AckBeforeListener THEN en.ttl ELSE 0)), TRUE>>
       ELSE <<QueueSend(TSRefresh(s, i, src, SubKey(en), en.ttl), src, AckEntry(en, en.ttl)), TRUE>>
RECURSIVE SubscribeSeq(_, _, _, _, _)
SubscribeSeq(s, q, src, en, any) ==
  IF q = <<>> THEN <<s, any>>
  ELSE LET r == InstSubscribe(s, Head(q), src, en) IN SubscribeSeq(r[1], Tail(q), src, en, any \/ r[2])
HandleSubscribe(s, src, en) ==
  LET r == SubscribeSeq(s, s.ann, src, en, FALSE)
  IN IF r[2] THEN r[1] ELSE QueueSend(r[1], src, AckEntry(en, 0))

RECURSIVE RebootAnnSeq(_, _, _)
RebootAnnSeq(s, q, src) == IF q = <<>> THEN s ELSE RebootAnnSeq(TSStopAddr(s, Head(q), src), Tail(q), src)

-----------------------------------------------------------------------------
(* ------------------- ServiceSubscriber (C14) and the find task (C13) ------ *)
\* s.sub = [alive, task, list]   list: Seq of <<eventgroup, server>> in request order (subscribeentries)
\* _group_entries: one message per server (first-appearance order), eventgroups in list order
RECURSIVE Servers(_)
Servers(l) == IF l = <<>> THEN <<>>
              ELSE LET r == Servers(SubSeq(l, 1, Len(l) - 1))  x == l[Len(l)][2]
                   IN IF \E i \in DOMAIN r : r[i] = x THEN r ELSE Append(r, x)
GroupOf(l, srv) == LET q == SelectSeq(l, LAMBDA p : p[2] = srv) IN [i \in DOMAIN q |-> q[i][1]]
RECURSIVE SendAllSubs(_, _, _)
SendAllSubs(s, ttl, srvs) ==
  IF srvs = <<>> THEN s ELSE SendAllSubs(SendSubs(s, ttl, Head(srvs), GroupOf(s.sub.list, Head(srvs))), ttl, Tail(srvs))
RECURSIVE QueueStopSubs(_, _)
QueueStopSubs(s, srvs) ==
  IF srvs = <<>> THEN s
  ELSE QueueStopSubs(CallSoon(s, [kind |-> "sub_send", ttl |-> 0, srv |-> Head(srvs), gs |-> GroupOf(s.sub.list, Head(srvs))]), Tail(srvs))

SubStart(s) ==
  IF s.sub.alive THEN s
  ELSE LET tk == NewTaskId(s) IN
       CallSoon([s EXCEPT !.sub.alive = TRUE, !.sub.task = tk,
                          !.tasks = Put(@, tk, [st |-> "created", pc |-> 0, i |-> 0, must |-> FALSE, inst |-> "", kind |-> "sub"])],
                [kind |-> "step", tk |-> tk])
SubStop(s, sendStop) ==
  IF ~s.sub.alive THEN s
  ELSE LET s1 == [CancelTask(s, s.sub.task) EXCEPT !.sub.alive = FALSE, !.sub.task = 0]
           s2 == IF sendStop THEN QueueStopSubs(s1, Servers(s1.sub.list)) ELSE s1
       IN IF Sw.SubStopForgetsList THEN [s2 EXCEPT !.sub.list = <<>>] ELSE s2
\* _subscribe: (re)send everything, sleep the refresh interval; a cancellation just ends the loop
SubStep(s, tk) ==
  IF s.tasks[tk].must THEN TaskDone(s, tk)
  ELSE LET s1 == SendAllSubs(s, Cfg.subTTL, Servers(s.sub.list))
       IN IF Cfg.refresh = 0 THEN TaskDone(s1, tk) ELSE Sleep(s1, tk, Cfg.refresh, 0, 0)

\* s.disc = [task]   ServiceDiscover.send_find_services: pc 0 initial wait, pc 1 round i
Found(s, f) == \E k \in s.store["found"] : k[2] \in Match[f]
FindEntries(s) == LET fs == SelectSeq(s.wkeys, LAMBDA f : Sw.FindIgnoresFound \/ ~Found(s, f)) IN [i \in DOMAIN fs |-> [ty |-> "find", svc |-> fs[i], ttl |-> Cfg.findTTL]]
DiscStart(s) ==
  IF s.disc.task # 0 /\ s.disc.task \in DOMAIN s.tasks THEN s
  ELSE LET tk == NewTaskId(s) IN
       CallSoon([s EXCEPT !.disc.task = tk,
                          !.tasks = Put(@, tk, [st |-> "created", pc |-> 0, i |-> 0, must |-> FALSE, inst |-> "", kind |-> "find"])],
                [kind |-> "step", tk |-> tk])
DiscStop(s) == IF s.disc.task = 0 THEN s ELSE [CancelTask(s, s.disc.task) EXCEPT !.disc.task = 0]
FindStep(s, tk) ==
  LET t == s.tasks[tk] IN
  IF t.must THEN TaskDone(s, tk)
  ELSE IF t.pc = 0
  THEN IF s.wkeys = <<>> THEN TaskDone(s, tk)
       ELSE Sleep(RandObs(s, Cfg.initMin, Cfg.initMax), tk, Rand(s, Cfg.initMin, Cfg.initMax), 1, 0)
  ELSE LET es == FindEntries(s) IN
       IF es = <<>> THEN TaskDone(s, tk)
       ELSE LET s1 == SendSD(s, "mc", es) IN
            IF t.i < Cfg.reps THEN Sleep(s1, tk, Pow2(t.i) * Cfg.base, 1, t.i + 1) ELSE TaskDone(s1, tk)

-----------------------------------------------------------------------------
(* --------------- SimpleEventgroup / SimpleService notifications (C17) ------ *)
\* s.eg = [subs (set of endpoint names), values ([event -> value]), cyc (id of the cyclic task or 0),
\*         cycWait (the cyclic task is blocked on has_clients), gather ([round id -> tasks still running])]
\* tasks: "ninit"/"nsingle" [ep, evs]  one datagram with one notification per event for one endpoint;
\*        "nall" [evs]  explicit round: snapshot of the endpoints, one nsingle each (asyncio.gather);
\*        "cyc"  cyclic_notify: wait for clients, sleep the interval, round, again
NtxEvents(s, ep, evs) ==   \* notifications use the service's own session counters, one per destination
  \* (an event that is no longer a key of `values` -- the mapping was replaced while the task was waiting -- raises KeyError: the
  \*  session ids of the events before it are consumed, the datagram is never sent)
  LET missing == {i \in DOMAIN evs : evs[i] \notin DOMAIN s.eg.values}
      n == IF missing = {} THEN Len(evs) ELSE (CHOOSE i \in missing : \A j \in missing : i <= j) - 1
      F[i \in 0..n] ==
        IF i = 0 THEN s
        ELSE LET r == AssignOut(F[i - 1], <<"svc", ep>>)
             IN IF missing # {} THEN r[1]
                ELSE Out(r[1], [k |-> "out", op |-> "ntx", dst |-> ep, sid |-> r[2][2], ev |-> evs[i], val |-> s.eg.values[evs[i]]])
  IN F[n]
NewTask(s, rec) == LET tk == NewTaskId(s) IN
  <<CallSoon([s EXCEPT !.tasks = Put(@, tk, [st |-> "created", pc |-> 0, i |-> 0, must |-> FALSE, inst |-> ""] @@ rec)],
             [kind |-> "step", tk |-> tk]), tk>>
RECURSIVE SpawnSingles(_, _, _, _)
SpawnSingles(s, eps, evs, round) ==
  IF eps = <<>> THEN s
  ELSE SpawnSingles(NewTask(s, [kind |-> "nsingle", ep |-> Head(eps), evs |-> evs, round |-> round])[1], Tail(eps), evs, round)
AllEvents(s) == s.eg.events      \* list(self.values.keys()): the attribute may be replaced as a whole (eg_replace)
\* the subscribed endpoints in the iteration order chosen for this step (a Python set: any order)
EpSeq(s) == IF s.pick = <<>> THEN SetToSeq(s.eg.subs) ELSE SelectSeq(s.pick, LAMBDA ep : ep \in s.eg.subs)
EgSub(s, ep) ==
  LET s1 == [s EXCEPT !.eg.subs = @ \cup {ep}]
      s2 == IF s.eg.cycWait /\ s.eg.cyc # 0        \* has_clients.set() wakes the blocked cyclic task
            THEN CallSoon([s1 EXCEPT !.eg.cycWait = FALSE, !.tasks[s.eg.cyc].pc = 2], [kind |-> "step", tk |-> s.eg.cyc]) ELSE s1
  IN NewTask(s2, [kind |-> "ninit", ep |-> ep, evs |-> AllEvents(s), round |-> 0])[1]
EgUnsub(s, ep) == [s EXCEPT !.eg.subs = @ \ {ep}]
\* oneshot: the events were passed as an iterator / generator (matters only for the as-shipped deviation D9)
EgNotify(s, evs, oneshot) ==
  IF s.eg.subs = {} THEN s ELSE NewTask(s, [kind |-> "nall", evs |-> evs, round |-> 0, oneshot |-> oneshot])[1]
CycContinue(s, tk) ==     \* top of the loop: wait for clients (no yield when there are some), then sleep
  IF s.eg.subs = {} THEN [s EXCEPT !.eg.cycWait = TRUE, !.tasks[tk].st = "blocked"]
  ELSE Sleep(s, tk, Cfg.egInterval, 1, 0)
EgStep(s, tk) ==
  LET t == s.tasks[tk] IN
  CASE t.kind \in {"ninit", "nsingle"} ->
         LET s1 == TaskDone(NtxEvents(s, t.ep, t.evs), tk) IN
         IF t.round = 0 THEN s1
         ELSE LET left == s1.eg.gather[t.round] - 1 IN       \* gather: the waiting task resumes after the last one
              IF left > 0 THEN [s1 EXCEPT !.eg.gather[t.round] = left]
              ELSE CallSoon([s1 EXCEPT !.eg.gather = Remove(@, t.round)], [kind |-> "step", tk |-> t.round])
    [] t.kind = "nall" ->
         LET eps == EpSeq(s) IN
         IF Sw.NotifyOnceConsumesIterator /\ t.oneshot /\ eps # <<>>
         THEN TaskDone(SpawnSingles(SpawnSingles(s, <<Head(eps)>>, t.evs, 0), Tail(eps), <<>>, 0), tk)
         ELSE TaskDone(SpawnSingles(s, eps, t.evs, 0), tk)
    [] t.kind = "cyc" ->
         IF t.pc = 1        \* the interval is over: a round to whoever is subscribed now
         THEN IF s.eg.subs = {} THEN CycContinue(s, tk)
              ELSE SpawnSingles([s EXCEPT !.eg.gather = Put(@, tk, Cardinality(s.eg.subs)), !.tasks[tk].st = "blocked", !.tasks[tk].pc = 3],
                                EpSeq(s), AllEvents(s), tk)
         ELSE IF t.pc = 2 THEN Sleep(s, tk, Cfg.egInterval, 1, 0)   \* woken by has_clients.set(): wait() returns True even
                                                                  \* if the event was cleared again meanwhile
         ELSE CycContinue(s, tk)      \* pc 0 first step, pc 3 round finished

TaskStep(s, tk) ==
  IF tk \notin DOMAIN s.tasks THEN s
  ELSE CASE s.tasks[tk].kind = "offer" -> OfferStep(s, tk)
         [] s.tasks[tk].kind = "sub"   -> SubStep(s, tk)
         [] s.tasks[tk].kind = "find"  -> FindStep(s, tk)
         [] OTHER -> EgStep(s, tk)

-----------------------------------------------------------------------------
(* ----------------- ServiceDiscoveryProtocol: receive path ---------------- *)
\* reboot_detected: subscriber (no-op), discovery, announcer -- each exactly once per detection.
\* With Cfg.seeReboot the three calls are observable (the harness wraps the components).
RebootObs(s, comp, src) ==
  IF Cfg.seeReboot THEN Out(s, [k |-> "out", op |-> "reboot", comp |-> comp, a |-> src]) ELSE s
RebootDisc(s, src) == FoundStopAddr(RebootObs(s, "disc", src), src)
RebootSub(s, src) == RebootObs(s, "sub", src)
RebootAnn(s, src) == RebootAnnSeq(RebootObs(s, "ann", src), s.ann, src)
RebootFanout(s, src) ==
  IF Sw.DeferRebootFanout
  THEN CallSoon(CallSoon(CallSoon(s, [kind |-> "reboot_sub", a |-> src]), [kind |-> "reboot_disc", a |-> src]),
                [kind |-> "reboot_ann", a |-> src])
  ELSE RebootAnn(RebootDisc(RebootSub(s, src), src), src)

RECURSIVE DispatchEntries(_, _, _, _)
DispatchEntries(s, src, mc, es) ==
  IF es = <<>> THEN s
  ELSE LET en == Head(es)
           s1 == CASE en.ty = "offer" -> IF Sw.DeferHandleOffer
                                         THEN CallSoon(s, [kind |-> "handle_offer", a |-> src, en |-> en])
                                         ELSE HandleOffer(s, src, en)
                   [] en.ty = "find" -> HandleFind(s, src, mc, en)
                   [] en.ty = "sub"  -> IF mc THEN s ELSE HandleSubscribe(s, src, en)   \* multicast Subscribe: dropped
                   [] OTHER -> s                                                          \* SubscribeAck: logged only
       IN DispatchEntries(s1, src, mc, Tail(es))

\* datagram_received for a decodable SD message (one loop callback)
Rx(s, e) ==
  LET reb == RebootSeen(s, e.src, e.mc, e.rb, e.sid)
      s1  == SessRecord(s, e.src, e.mc, e.rb, e.sid)
      s2  == IF reb THEN RebootFanout(s1, e.src) ELSE s1
  IN IF e.uc THEN DispatchEntries(s2, e.src, e.mc, e.es) ELSE s2

\* the moment a component really handles the connection loss is observable (the harness wraps the methods)
ClApplied(s, comp) == Out(s, [k |-> "out", op |-> "cl_applied", comp |-> comp])
ConnLost(s) ==   \* ServiceDiscoveryProtocol.connection_lost defers to the three components
  CallSoon(CallSoon(CallSoon(s, [kind |-> "connlost_sub"]), [kind |-> "connlost_disc"]), [kind |-> "connlost_ann"])

-----------------------------------------------------------------------------
(* ------------------------ one callback = one step ------------------------ *)
Input(s, e) ==      \* an environment input, delivered as an I/O callback
  LET s0 == Out(s, IF e.op = "rx" THEN e ELSE [e EXCEPT !.op = @] @@ [k |-> "in"]) IN
  CASE e.op = "rx"       -> Rx(s0, e)
    [] e.op = "watch"    -> Watch(s0, e.lst, e.flt)
    [] e.op = "unwatch"  -> Unwatch(s0, e.lst, e.flt)
    [] e.op = "connlost" -> ConnLost(s0)
    [] e.op = "send"     -> SendSD(s0, e.dst, e.es)          \* public send_sd (C08)
    [] e.op = "ann_start" -> AnnStart(s0)
    [] e.op = "ann_stop"  -> AnnStop(s0)
    [] e.op = "announce"  -> Announce(s0, e.inst)
    [] e.op = "stop_announce" -> StopAnnounce(s0, e.inst)
    [] e.op = "queue"    -> QueueSend(s0, e.dst, e.en)       \* public queue_send (C15)
    [] e.op = "sub_start" -> SubStart(s0)
    [] e.op = "sub_stop"  -> SubStop(s0, TRUE)
    [] e.op = "subscribe" -> SubscribeEg(s0, e.g, e.srv)
    [] e.op = "unsubscribe" -> UnsubscribeEg(s0, e.g, e.srv)
    [] e.op = "disc_start" -> DiscStart(s0)
    [] e.op = "disc_stop"  -> DiscStop(s0)
    [] e.op = "prot_start" -> DiscStart(AnnStart(SubStart(s0)))          \* ServiceDiscoveryProtocol.start / stop
    [] e.op = "prot_stop"  -> SubStop(AnnStop(DiscStop(s0)), TRUE)
    [] e.op = "eg_create" -> IF Cfg.egInterval = 0 THEN s0          \* SimpleEventgroup(interval=...): cyclic task only with an interval
                             ELSE LET r == NewTask(s0, [kind |-> "cyc"]) IN [r[1] EXCEPT !.eg.cyc = r[2]]
    [] e.op = "eg_sub"    -> EgSub(s0, e.ep)
    [] e.op = "eg_unsub"  -> EgUnsub(s0, e.ep)
    [] e.op = "eg_set"    -> [s0 EXCEPT !.eg.values[e.ev] = e.val]
    [] e.op = "eg_replace" ->       \* eventgroup.values = {...}: a new mapping (e.vals: <<event, value>> pairs in its order)
         [s0 EXCEPT !.eg.values = [ev \in {e.vals[i][1] : i \in DOMAIN e.vals} |-> e.vals[CHOOSE i \in DOMAIN e.vals : e.vals[i][1] = ev][2]],
                    !.eg.events = [i \in DOMAIN e.vals |-> e.vals[i][1]]]
    [] e.op = "eg_notify" -> EgNotify(s0, e.evs, "oneshot" \in DOMAIN e /\ e.oneshot)
    \* the application queues one of the calls above with loop.call_soon: it runs among the library's own callbacks of the next iteration
    [] e.op = "defer"       -> CallSoon(s0, [kind |-> "appcall", e |-> e.e])
    \* a bare TimedStore driven through its public methods (C09)
    [] e.op = "ts_refresh"  -> IF "nak" \in DOMAIN e /\ e.nak /\ ~Has(s0, "ts", e.a, e.key) THEN s0      \* callback_new refuses: no trace
                               ELSE TSRefresh(s0, "ts", e.a, e.key, e.ttl)
    [] e.op = "ts_stop"     -> TSStop(s0, "ts", e.a, e.key)
    [] e.op = "ts_stopaddr" -> TSStopAddr(s0, "ts", e.a)
    [] e.op = "ts_stopall"  -> TSStopAll(s0, "ts")
    [] e.op = "ts_stopmatch" -> TSStopMatching(s0, "ts", Range(e.keys))

Effect(s, c) ==
  CASE c.kind = "input"          -> Input(s, c.e)
    [] c.kind = "appcall"        -> Input(s, c.e)
    [] c.kind = "handle_offer"   -> HandleOffer(s, c.a, c.en)
    [] c.kind = "expired"        -> TSExpired(s, c.store, c.a, c.key)
    [] c.kind = "notify_gone"    -> TSGone(s, c.store, c.a, c.key)
    [] c.kind = "emit"           -> Out(s, c.e)
    [] c.kind = "reboot_disc"    -> RebootDisc(s, c.a)
    [] c.kind = "reboot_sub"     -> RebootSub(s, c.a)
    [] c.kind = "reboot_ann"     -> RebootAnn(s, c.a)
    [] c.kind = "connlost_disc"  -> FoundStopAll(ClApplied(s, "disc"))
    [] c.kind = "cancelled"      -> s
    [] c.kind = "step"           -> TaskStep(s, c.tk)
    [] c.kind = "sub_send"       -> SendSubs(s, c.ttl, c.srv, c.gs)
    [] c.kind = "wake"           -> Wake(s, c.tk)
    [] c.kind = "collect"        -> Collect(s, c.dst)
    [] c.kind = "answer"         -> AnswerFind(s, c.inst, c.dst)
    [] c.kind = "connlost_ann"   -> AnnStop(ClApplied(s, "ann"))
    [] c.kind = "connlost_sub"   -> SubStop(ClApplied(s, "sub"), FALSE)

-----------------------------------------------------------------------------
(* ------------------- initial stack, environment helpers ------------------ *)
InitRec ==
  [ ready |-> <<>>, todo |-> 0, timers |-> {}, outs |-> <<>>, ev |-> 0, idle |-> 0,
        sessIn |-> <<>>, sessOut |-> <<>>, peer |-> <<>>, watch |-> Cfg.watch0, wkeys |-> IF Cfg.wkeys0 # <<>> THEN Cfg.wkeys0 ELSE SetToSeq(UNION Range(Cfg.watch0) \ {"ALL"}),
        store |-> [found |-> {}, ts |-> {}] @@ [i \in DOMAIN Cfg.inst |-> {}],
        aord |-> [found |-> <<>>, ts |-> <<>>] @@ [i \in DOMAIN Cfg.inst |-> <<>>],      \* iteration order, see Track
        sord |-> [found |-> <<>>, ts |-> <<>>] @@ [i \in DOMAIN Cfg.inst |-> <<>>],
        started |-> FALSE, ann |-> Cfg.ann0, inst |-> [i \in DOMAIN Cfg.inst |-> [task |-> 0, can |-> FALSE]],
        tasks |-> <<>>, queues |-> <<>>, ch |-> 0, pick |-> <<>>,
        sub |-> [alive |-> FALSE, task |-> 0, list |-> <<>>], disc |-> [task |-> 0],
        eg |-> [subs |-> {}, values |-> Cfg.values0, events |-> Cfg.events, cyc |-> 0, cycWait |-> FALSE, gather |-> <<>>] ]

\* inputs applicable now (a listener registers under one filter at a time: DESIGN §9)
Applicable(st, e) ==
  CASE e.op = "watch"   -> st.watch[e.lst] = {}
    [] e.op = "unwatch" -> e.flt \in st.watch[e.lst]
    [] e.op = "ann_start" -> ~st.started
    [] e.op = "ann_stop"  -> st.started \/ Cfg.stopTwice      \* (C10: stopping a stopped announcer must succeed)
    [] e.op = "announce"  -> ~\E n \in DOMAIN st.ann : st.ann[n] = e.inst
    [] e.op = "stop_announce" -> \E n \in DOMAIN st.ann : st.ann[n] = e.inst
    \* (C14: no duplicate subscribes of one eventgroup to one server)
    [] e.op = "subscribe" -> ~\E n \in DOMAIN st.sub.list : st.sub.list[n] = <<e.g, e.srv>>
    [] e.op = "disc_start" -> st.disc.task = 0
    [] e.op = "eg_create" -> st.eg.cyc = 0 /\ st.ev = 0       \* the eventgroup is constructed first
    [] e.op = "eg_sub"   -> e.ep \notin st.eg.subs /\ (Cfg.egInterval = 0 \/ st.eg.cyc # 0)
    [] e.op = "eg_unsub" -> e.ep \in st.eg.subs
    [] OTHER -> TRUE

\* the part of the state that decides applicability, as it will be after input e has run
Flag(st, e) ==
  CASE e.op = "ann_start" -> [st EXCEPT !.started = TRUE]
    [] e.op = "ann_stop"  -> [st EXCEPT !.started = FALSE]
    [] e.op = "announce"  -> [st EXCEPT !.ann = Append(@, e.inst)]
    [] e.op = "stop_announce" -> [st EXCEPT !.ann = SelectSeq(@, LAMBDA x : x # e.inst)]
    [] e.op = "watch"     -> [st EXCEPT !.watch[e.lst] = @ \cup {e.flt}]
    [] e.op = "unwatch"   -> [st EXCEPT !.watch[e.lst] = @ \ {e.flt}]
    [] e.op = "subscribe" -> [st EXCEPT !.sub.list = Append(@, <<e.g, e.srv>>)]
    [] e.op = "unsubscribe" -> [st EXCEPT !.sub.list = SelectSeq(@, LAMBDA p : p # <<e.g, e.srv>>)]
    [] e.op = "disc_start" -> [st EXCEPT !.disc.task = 1]
    [] e.op = "disc_stop" -> [st EXCEPT !.disc.task = 0]
    [] e.op = "eg_create" -> [st EXCEPT !.eg.cyc = 1, !.ev = 1]
    [] e.op = "eg_sub"   -> [st EXCEPT !.eg.subs = @ \cup {e.ep}]
    [] e.op = "eg_unsub" -> [st EXCEPT !.eg.subs = @ \ {e.ep}]
    [] OTHER -> st
RECURSIVE AllApplicable(_, _)
AllApplicable(st, ins) ==
  IF ins = <<>> THEN TRUE
  ELSE Applicable(st, Head(ins)) /\ AllApplicable(Flag(st, Head(ins)), Tail(ins))

\* the environment peer keeps its own outgoing session counter per (address, channel), wrapping
\* at Cfg.maxId like a real sender (C08); an input with reboot = TRUE is the first message of a
\* new incarnation of that peer.  Inputs other than rx are passed through.
Concretise(st, e) ==
  IF e.op = "queue" THEN <<st, [e EXCEPT !.en.tag = st.ev + 1]>>      \* ghost entries get unique tags (C15)
  ELSE IF e.op # "rx" \/ "sid" \in DOMAIN e THEN <<st, e>>     \* (an rx input may also prescribe sid / rb itself)
  ELSE LET k   == <<e.src, e.mc>>
           cur == IF e.reboot \/ k \notin DOMAIN st.peer THEN <<TRUE, 1>> ELSE st.peer[k]
           nxt == IF cur[2] >= Cfg.maxId THEN <<FALSE, 1>> ELSE <<cur[1], cur[2] + 1>>
       IN <<[st EXCEPT !.peer = Put(@, k, nxt)],
            [op |-> "rx", k |-> "in", src |-> e.src, mc |-> e.mc, sid |-> cur[2], rb |-> cur[1],
             uc |-> e.uc, es |-> e.es]>>

RECURSIVE Arrive(_, _)
Arrive(st, ins) ==    \* the I/O callbacks of this poll, appended in arrival order
  IF ins = <<>> THEN st
  ELSE LET r == Concretise(st, Head(ins))
       IN Arrive([r[1] EXCEPT !.ready = Append(@, [kind |-> "input", e |-> r[2]]), !.ev = @ + 1], Tail(ins))

\* every due timer, once per multiplicity (identical timers may fire interleaved with others)
DueCopies(st) == UNION {{<<x, c>> : c \in 1..x.n} : x \in Due(st)}
TimerCbs(tq) == [i \in DOMAIN tq |-> tq[i][1].cb]

\* interleavings of 1..a (kept in order) with a+1..a+b (kept in order)
Merges(a, b) == {p \in Perms(1..(a + b)) :
                   \A i, j \in 1..(a + b) : (i < j /\ ((p[i] <= a) = (p[j] <= a))) => p[i] < p[j]}

=============================================================================
