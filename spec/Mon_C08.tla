---------------------------- MODULE Mon_C08 ----------------------------
(* Property monitor for C08 -- "Outgoing session ids count 1..0xFFFF per destination; reboot
   flag clears on wrap".  Alphabet:
     in  send dst es           send_sd called with the entries es for destination dst
     in  burn dst n            n session ids for dst were consumed unobserved (fast-forward)
     in  notify dsts           an event notification round for the given destinations is requested
     out tx dst sid rb es      an SD message with entries es left the transport
     out ntx dst sid           an event notification left the transport
     idle
   Per destination the expected (flag, id) pair is computed here; MaxId comes from cfg.     *)
EXTENDS Naturals, Sequences, FiniteSets, TLC
Range(s) == {s[i] : i \in DOMAIN s}

MonInit(cfg) ==
  [ cfg |-> cfg,
    nxt |-> [d \in Range(cfg.dsts) |-> <<TRUE, 1>>],
    owe |-> [d \in Range(cfg.dsts) |-> 0],      \* transmissions requested and not yet seen
    bad |-> "", at |-> 0, n |-> 0 ]
Fail(m, clause) == IF m.bad = "" THEN [m EXCEPT !.bad = clause, !.at = m.n] ELSE m
MaxId(m) == m.cfg.maxId

Step1(p, mx) == IF p[2] >= mx THEN <<FALSE, 1>> ELSE <<p[1], p[2] + 1>>
\* n steps at once: ids run 1..mx cyclically, the flag is cleared by the first wrap
StepN(p, n, mx) ==
  LET tot == p[2] - 1 + n IN <<p[1] /\ tot < mx, (tot % mx) + 1>>

Settle(m) == IF \E d \in DOMAIN m.owe : m.owe[d] > 0 THEN Fail(m, "requested_message_not_sent") ELSE m

Tx(m, e, sd) ==
  IF e.dst \notin DOMAIN m.nxt THEN Fail(m, "unknown_identity")
  ELSE LET exp == m.nxt[e.dst]
           m1  == [m EXCEPT !.nxt[e.dst] = Step1(exp, MaxId(m)), !.owe[e.dst] = IF @ > 0 THEN @ - 1 ELSE 0]
       IN IF e.sid = 0 THEN Fail(m1, "session_id_zero")
          ELSE IF e.sid # exp[2] THEN Fail(m1, "session_id_gap_or_repeat")
          ELSE IF sd /\ e.rb # exp[1] THEN Fail(m1, "reboot_flag_wrong")
          ELSE IF sd /\ Len(e.es) = 0 THEN Fail(m1, "empty_message_sent")
          ELSE IF m.owe[e.dst] = 0 THEN Fail(m1, "unrequested_message")
          ELSE m1

MonStep(m0, e) ==
  LET m == [m0 EXCEPT !.n = @ + 1] IN
  CASE e.k = "in" /\ e.op = "send" ->
         LET m1 == Settle(m) IN IF Len(e.es) = 0 THEN m1 ELSE [m1 EXCEPT !.owe[e.dst] = @ + 1]
    [] e.k = "in" /\ e.op = "burn" -> [Settle(m) EXCEPT !.nxt[e.dst] = StepN(@, e.n, MaxId(m))]
    [] e.k = "in" /\ e.op = "notify" ->
         LET m1 == Settle(m) IN [m1 EXCEPT !.owe = [d \in DOMAIN @ |-> IF d \in Range(e.dsts) THEN @[d] + e.per ELSE @[d]]]
    [] e.k = "out" /\ e.op = "tx"  -> Tx(m, e, TRUE)
    [] e.k = "out" /\ e.op = "ntx" -> Tx(m, e, FALSE)
    [] e.k = "idle" -> Settle(m)
    [] e.k = "exc" -> Fail(m, "exception")
    [] OTHER -> m
=============================================================================
