------------------------------ MODULE Service ------------------------------
(* Functional specification of SimpleService.message_received (service.py:250-352), C16:
   which reply, if any, a service endpoint sends for a received SOME/IP message.  The first
   failing check decides; the reply echoes the ids of the request and goes to the sender only.

   TLC (MC_C16.tla, cfg/C16.cfg) walks the complete decision table -- one state per row -- and
   checks the laws of the statement on it; ServiceVerdict evaluates recorded calls of the real code.    *)
EXTENDS Naturals, Sequences, FiniteSets, TLC

MsgTypes == {0, 1, 2, 64, 65, 66, 128, 129, 192, 193}     \* REQUEST, REQUEST_NO_RETURN, NOTIFICATION, *_ACK, RESPONSE, ERROR, ...
RetCodes == 0..10
REQUEST == 0   REQUEST_NO_RETURN == 1   RESPONSE == 128   ERROR == 129
E_OK == 0  E_UNKNOWN_SERVICE == 2  E_UNKNOWN_METHOD == 3  E_WRONG_INTERFACE_VERSION == 8
E_MALFORMED_MESSAGE == 9  E_WRONG_MESSAGE_TYPE == 10
Handlers == {"bytes", "none", "malformed"}     \* what the registered handler does with the request

\* r: [mc, svcOK, ifaceOK, known, mt, rc, handler]  ->  [kind \in {"none", "response", "error"}, code]
Decision(r) ==
  IF r.mc THEN [kind |-> "none", code |-> 0]                                   \* multicast: never answered
  ELSE IF ~r.svcOK   THEN [kind |-> "error", code |-> E_UNKNOWN_SERVICE]
  ELSE IF ~r.ifaceOK THEN [kind |-> "error", code |-> E_WRONG_INTERFACE_VERSION]
  ELSE IF ~r.known   THEN [kind |-> "error", code |-> E_UNKNOWN_METHOD]
  ELSE IF r.mt \notin {REQUEST, REQUEST_NO_RETURN} THEN [kind |-> "error", code |-> E_WRONG_MESSAGE_TYPE]
  ELSE IF r.rc # E_OK THEN [kind |-> "error", code |-> E_WRONG_MESSAGE_TYPE]
  ELSE IF r.handler = "malformed" THEN [kind |-> "error", code |-> E_MALFORMED_MESSAGE]
  ELSE IF r.handler = "bytes" /\ r.mt = REQUEST THEN [kind |-> "response", code |-> E_OK]
  ELSE [kind |-> "none", code |-> 0]

Table == [mc : BOOLEAN, svcOK : BOOLEAN, ifaceOK : BOOLEAN, known : BOOLEAN, mt : MsgTypes, rc : RetCodes,
          handler : Handlers]

\* ---- the laws of the statement, checked on every row
Laws(r) ==
  LET d == Decision(r) IN
  /\ r.mc => d.kind = "none"
  /\ r.mt = REQUEST_NO_RETURN => d.kind # "response"
  /\ d.kind = "response" <=> (~r.mc /\ r.svcOK /\ r.ifaceOK /\ r.known /\ r.mt = REQUEST /\ r.rc = E_OK /\ r.handler = "bytes")
  /\ (~r.mc /\ ~r.svcOK) => d = [kind |-> "error", code |-> E_UNKNOWN_SERVICE]      \* the first failing check decides,
  /\ (~r.mc /\ r.svcOK /\ ~r.ifaceOK) => d.code = E_WRONG_INTERFACE_VERSION          \* whatever else is wrong too
  /\ (~r.mc /\ r.svcOK /\ r.ifaceOK /\ ~r.known) => d.code = E_UNKNOWN_METHOD
  /\ d.kind = "error" => d.code \in {E_UNKNOWN_SERVICE, E_WRONG_INTERFACE_VERSION, E_UNKNOWN_METHOD,
                                     E_WRONG_MESSAGE_TYPE, E_MALFORMED_MESSAGE}

\* ---- verdict on one recorded call of the real code (functional mode)
\* rec: [mc, svcOK, ifaceOK, known, mt, rc, handler, req : [sid, mid, cid, sess, iv], hpayload (bytes the handler returns),
\*       replies : Seq([dst, sender, sid, mid, cid, sess, iv, mt, rc, payload, pv])]
ServiceVerdict(rec) ==
  LET d == Decision(rec) IN
  IF d.kind = "none"
  THEN IF rec.replies = <<>> THEN "" ELSE "reply_where_none_is_due"
  ELSE IF Len(rec.replies) = 0 THEN "reply_missing"
  ELSE IF Len(rec.replies) > 1 THEN "more_than_one_reply"
  ELSE LET p == rec.replies[1] IN
       IF p.dst # p.sender THEN "reply_not_to_sender"
       ELSE IF <<p.sid, p.mid, p.cid, p.sess, p.iv>> # <<rec.req.sid, rec.req.mid, rec.req.cid, rec.req.sess, rec.req.iv>>
            THEN "reply_does_not_echo_request_ids"
       ELSE IF p.pv # 1 THEN "reply_protocol_version"
       ELSE IF d.kind = "response"
            THEN IF p.mt # RESPONSE THEN "response_expected" ELSE IF p.rc # E_OK THEN "response_return_code"
                 ELSE IF p.payload # rec.hpayload THEN "response_payload" ELSE ""
       ELSE IF p.mt # ERROR THEN "error_expected"
            ELSE IF p.rc # d.code THEN "error_code_wrong"
            ELSE IF p.payload # <<>> THEN "error_payload_not_empty" ELSE ""
=============================================================================
