------------------------------ MODULE MC_C09 ------------------------------
(* Mode 1 for C09: a bare TimedStore (store "ts" of SD.tla) on the loop model, driven through
   its public methods from the I/O phase and from the timer phase of an iteration, composed with
   Mon_C09.  TTLs {1, 2, BIG, FOREVER}; time may jump to the next deadline.               *)
EXTENDS SD
M == INSTANCE Mon_C09
VARIABLE mon
mcvars == <<s, mon>>
BIG == 16777214

MonCfg == [addrs |-> Cfg.addrs, keys |-> Cfg.keys]
RECURSIVE Fold(_, _)
Fold(m, es) == IF es = <<>> THEN m ELSE Fold(M!MonStep(m, Head(es)), Tail(es))
MCInit == Init /\ mon = M!MonInit(MonCfg)
MCNext == Next /\ mon' = Fold(mon, s'.outs)
MCSpec == MCInit /\ [][MCNext]_mcvars
MonOK  == mon.bad = ""
IdleOK == IsIdle(s) => M!Idle(mon).bad = ""
\* the ghost and the modelled store agree whenever the loop is idle
Agree  == IsIdle(s) => \A k \in DOMAIN mon.pres : mon.pres[k] <=> (k \in s.store["ts"])

Ops(addrs, keys, ttls) ==
  {[op |-> "ts_refresh", a |-> a, key |-> k, ttl |-> t, nak |-> n] : a \in addrs, k \in keys, t \in ttls, n \in BOOLEAN}
  \cup {[op |-> "ts_stop", a |-> a, key |-> k] : a \in addrs, k \in keys}
  \cup {[op |-> "ts_stopaddr", a |-> a] : a \in addrs} \cup {[op |-> "ts_stopall"]}
  \cup {[op |-> "ts_stopmatch", keys |-> <<k>>] : k \in keys}

Q_Cfg == [addrs |-> <<"a1">>, keys |-> <<"k1", "k2">>, timerPhase |-> TRUE, watch0 |-> <<>>] @@ CfgDefault
Q_Inputs == Ops({"a1"}, {"k1", "k2"}, {1, 2, FOREVER})
T_Cfg == [addrs |-> <<"a1", "a2">>, keys |-> <<"k1", "k2">>, timerPhase |-> TRUE, watch0 |-> <<>>] @@ CfgDefault
T_Inputs == Ops({"a1", "a2"}, {"k1", "k2"}, {1, 2, BIG, FOREVER})
NoMatch == <<>>
NoSw == AllOff
SwD1 == [NoSw EXCEPT !.DeferExpiryNotify = TRUE]
SwD2 == [NoSw EXCEPT !.DeferStopAllNotify = TRUE]
SwStale == [NoSw EXCEPT !.StaleTimerOnRefresh = TRUE]
SwForever == [NoSw EXCEPT !.ForeverGetsTimer = TRUE]
=============================================================================
