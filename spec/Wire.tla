-------------------------------- MODULE Wire --------------------------------
(* Functional specification of the SOME/IP and SOME/IP-SD wire formats as implemented by
   someip/header.py: total decoders over byte strings (Seq(0..255)), encoders, and the laws
   connecting them.  32-bit fields that may exceed TLC's integers are kept as two 16-bit limbs
   <<hi, lo>>.  Decoders return  [ok |-> TRUE, ...value..., rest |-> unconsumed suffix]  or
   [ok |-> FALSE, why |-> reason]; why = "unicode" is the one case in which the implementation
   raises UnicodeDecodeError instead of its ParseError (C03).  Error precedence follows the
   decode order of the implementation: options before entries; inside a configuration option
   item i is decoded completely (incl. the ASCII check) before the length byte of item i+1.

   Used (a) by TLC on enumerated boundary domains (MC_Wire.tla: round-trip / canonicalisation
   laws), (b) as the independent oracle evaluating every recorded call of the real codec
   (operators *Verdict at the end; functional mode of the harness).                          *)
EXTENDS Naturals, Sequences, FiniteSets, TLC

Byte == 0..255
BE16(b, i) == b[i] * 256 + b[i + 1]
Sub(b, i, n) == SubSeq(b, i, i + n - 1)           \* n bytes from 1-based position i
Enc16(x) == <<x \div 256, x % 256>>
Enc24(x) == <<x \div 65536, (x \div 256) % 256, x % 256>>
Enc32(x) == <<x \div 16777216, (x \div 65536) % 256, (x \div 256) % 256, x % 256>>      \* x < 2^31
EncLimbs(v) == Enc16(v[1]) \o Enc16(v[2])
Err(w) == [ok |-> FALSE, why |-> w]
RECURSIVE Flat(_)
Flat(ss) == IF ss = <<>> THEN <<>> ELSE Head(ss) \o Flat(Tail(ss))

-----------------------------------------------------------------------------
(* ------------------------------ SOME/IP message --------------------------- *)
MsgTypes == {0, 1, 2, 64, 65, 66, 128, 129, 192, 193}
RetCodes == 0..10
\* m: [sid, mid, cid, sess, pv, iv, mt, rc, payload]
EncMsg(m) ==
  Enc16(m.sid) \o Enc16(m.mid) \o Enc32(Len(m.payload) + 8) \o Enc16(m.cid) \o Enc16(m.sess)
  \o <<m.pv, m.iv, m.mt, m.rc>> \o m.payload

\* header checks shared by datagram and stream decoding: "" or the reason of the ParseError
HeaderError(b) ==     \* b: at least 16 bytes
  IF b[13] # 1 THEN "pv" ELSE IF b[15] \notin MsgTypes THEN "mt" ELSE IF b[16] \notin RetCodes THEN "rc"
  ELSE IF BE16(b, 5) = 0 /\ BE16(b, 7) < 8 THEN "len<8" ELSE ""
DecMsg(b) ==
  IF Len(b) < 16 THEN Err("short")
  ELSE IF HeaderError(b) # "" THEN Err(HeaderError(b))
  ELSE LET hi == BE16(b, 5)  lo == BE16(b, 7) IN
       IF hi > 16383 \/ Len(b) - 8 < hi * 65536 + lo THEN Err("truncated")      \* declared length exceeds the buffer
       ELSE LET n == hi * 65536 + lo - 8 IN
            [ok |-> TRUE,
             msg |-> [sid |-> BE16(b, 1), mid |-> BE16(b, 3), cid |-> BE16(b, 9), sess |-> BE16(b, 11),
                      pv |-> b[13], iv |-> b[14], mt |-> b[15], rc |-> b[16], payload |-> Sub(b, 17, n)],
             used |-> 16 + n, rest |-> SubSeq(b, 17 + n, Len(b))]
\* SOMEIPDatagramProtocol.datagram_received: messages one by one until the data is used up or undecodable
RECURSIVE DecAll(_)
DecAll(b) ==
  IF b = <<>> THEN [msgs |-> <<>>, err |-> ""]
  ELSE LET d == DecMsg(b) IN
       IF ~d.ok THEN [msgs |-> <<>>, err |-> d.why]
       ELSE LET r == DecAll(d.rest) IN [msgs |-> <<d.msg>> \o r.msgs, err |-> r.err]

-----------------------------------------------------------------------------
(* ------------------------------- SD options ------------------------------- *)
IPKind(t) == CASE t = 4 -> "ep4" [] t = 20 -> "mc4" [] t = 36 -> "sd4" [] t = 6 -> "ep6" [] t = 22 -> "mc6" [] t = 38 -> "sd6"
IPType(k) == CASE k = "ep4" -> 4 [] k = "mc4" -> 20 [] k = "sd4" -> 36 [] k = "ep6" -> 6 [] k = "mc6" -> 22 [] k = "sd6" -> 38
IndexOf(s, x) == IF \E i \in DOMAIN s : s[i] = x THEN CHOOSE i \in DOMAIN s : s[i] = x /\ \A j \in 1..(i - 1) : s[j] # x ELSE 0

\* configuration items; b = option payload after the reserved byte, p = position of the next length byte
RECURSIVE CfgItems(_, _)
CfgItems(b, p) ==
  IF b[p] = 0 THEN [ok |-> TRUE, items |-> <<>>]
  ELSE IF Len(b) - p < b[p] + 1 THEN Err("cfglen")            \* the string and the next length byte must fit
  ELSE LET str == Sub(b, p + 1, b[p])
           eq  == IndexOf(str, 61) IN
       IF \E i \in DOMAIN str : str[i] > 127 THEN Err("unicode")
       ELSE LET rest == CfgItems(b, p + 1 + b[p]) IN
            IF ~rest.ok THEN rest
            ELSE [ok |-> TRUE,
                  items |-> <<IF eq = 0 THEN [key |-> str, has |-> FALSE, val |-> <<>>]
                              ELSE [key |-> SubSeq(str, 1, eq - 1), has |-> TRUE, val |-> SubSeq(str, eq + 1, Len(str))]>>
                            \o rest.items]
DecOptBody(t, o) ==     \* o: the option's bytes after the 3-byte header (first one reserved)
  CASE t = 1 -> IF Len(o) < 2 THEN Err("cfgshort")
                ELSE LET r == CfgItems(Tail(o), 1) IN IF r.ok THEN [ok |-> TRUE, opt |-> [k |-> "cfg", items |-> r.items]] ELSE r
    [] t = 2 -> IF Len(o) # 5 THEN Err("lblen") ELSE [ok |-> TRUE, opt |-> [k |-> "lb", prio |-> BE16(o, 2), weight |-> BE16(o, 4)]]
    [] t \in {4, 20, 36} -> IF Len(o) # 9 THEN Err("ip4len")
                            ELSE [ok |-> TRUE, opt |-> [k |-> IPKind(t), addr |-> Sub(o, 2, 4), proto |-> o[7], port |-> BE16(o, 8)]]
    [] t \in {6, 22, 38} -> IF Len(o) # 21 THEN Err("ip6len")
                            ELSE [ok |-> TRUE, opt |-> [k |-> IPKind(t), addr |-> Sub(o, 2, 16), proto |-> o[19], port |-> BE16(o, 20)]]
    [] OTHER -> [ok |-> TRUE, opt |-> [k |-> "unk", type |-> t, payload |-> o]]
\* one option at the start of b
DecOption(b) ==
  IF Len(b) < 3 THEN Err("optshort")
  ELSE LET n == BE16(b, 1) IN
       IF Len(b) - 3 < n THEN Err("optlen")
       ELSE LET one == DecOptBody(b[3], Sub(b, 4, n)) IN
            IF ~one.ok THEN one ELSE [ok |-> TRUE, opt |-> one.opt, rest |-> SubSeq(b, 4 + n, Len(b))]
RECURSIVE DecOpts(_)
DecOpts(b) ==
  IF b = <<>> THEN [ok |-> TRUE, opts |-> <<>>]
  ELSE LET one == DecOption(b) IN
       IF ~one.ok THEN one
       ELSE LET rest == DecOpts(one.rest) IN IF ~rest.ok THEN rest ELSE [ok |-> TRUE, opts |-> <<one.opt>> \o rest.opts]

EncCfgItem(it) == LET str == IF it.has THEN it.key \o <<61>> \o it.val ELSE it.key IN <<Len(str)>> \o str
EncOptBody(o) ==
  CASE o.k = "cfg" -> <<0>> \o Flat([i \in DOMAIN o.items |-> EncCfgItem(o.items[i])]) \o <<0>>
    [] o.k = "lb"  -> <<0>> \o Enc16(o.prio) \o Enc16(o.weight)
    [] o.k = "unk" -> o.payload
    [] OTHER       -> <<0>> \o o.addr \o <<0, o.proto>> \o Enc16(o.port)
OptType(o) == CASE o.k = "cfg" -> 1 [] o.k = "lb" -> 2 [] o.k = "unk" -> o.type [] OTHER -> IPType(o.k)
EncOption(o) == LET body == EncOptBody(o) IN Enc16(Len(body)) \o <<OptType(o)>> \o body

-----------------------------------------------------------------------------
(* ------------------------------- SD entries ------------------------------- *)
EntryTypes == {0, 1, 6, 7}
\* raw entry: [ty, oi1, oi2, no1, no2, sid, iid, maj, ttl, v (<<hi16, lo16>>: minor version, or counter / eventgroup)]
DecEntry(b, nopts) ==
  IF Len(b) < 16 THEN Err("eshort")
  ELSE LET ty == b[1]  no1 == b[4] \div 16  no2 == b[4] % 16 IN
       IF ty \notin EntryTypes THEN Err("etype")
       ELSE IF b[2] + no1 > nopts THEN Err("oidx1")
       ELSE IF b[3] + no2 > nopts THEN Err("oidx2")
       ELSE IF ty \in {6, 7} /\ BE16(b, 13) \div 16 # 0 THEN Err("reserved")     \* 12 reserved bits above the counter
       ELSE [ok |-> TRUE, rest |-> SubSeq(b, 17, Len(b)),
             e |-> [ty |-> ty, oi1 |-> b[2], oi2 |-> b[3], no1 |-> no1, no2 |-> no2, sid |-> BE16(b, 5), iid |-> BE16(b, 7),
                    maj |-> b[9], ttl |-> b[10] * 65536 + BE16(b, 11), v |-> <<BE16(b, 13), BE16(b, 15)>>]]
RECURSIVE DecEntries(_, _)
DecEntries(b, nopts) ==
  IF b = <<>> THEN [ok |-> TRUE, es |-> <<>>]
  ELSE LET one == DecEntry(b, nopts) IN
       IF ~one.ok THEN one
       ELSE LET rest == DecEntries(one.rest, nopts) IN IF ~rest.ok THEN rest ELSE [ok |-> TRUE, es |-> <<one.e>> \o rest.es]
EncEntry(e) ==
  <<e.ty, e.oi1, e.oi2, e.no1 * 16 + e.no2>> \o Enc16(e.sid) \o Enc16(e.iid) \o <<e.maj>> \o Enc24(e.ttl) \o EncLimbs(e.v)

-----------------------------------------------------------------------------
(* ------------------------------- SD message ------------------------------- *)
\* [rb, uc, fl (the six undefined flag bits), es (raw entries), opts]
DecSD(b) ==
  IF Len(b) < 12 THEN Err("short")
  ELSE LET elHi == BE16(b, 5)  el == BE16(b, 7) IN
  IF elHi # 0 \/ Len(b) - 8 < el + 4 THEN Err("elen")
  ELSE LET po == 9 + el  olHi == BE16(b, po)  ol == BE16(b, po + 2) IN
  IF olHi # 0 \/ Len(b) - (po + 3) < ol THEN Err("olen")
  ELSE LET os == DecOpts(Sub(b, po + 4, ol)) IN
  IF ~os.ok THEN os
  ELSE LET es == DecEntries(Sub(b, 9, el), Len(os.opts)) IN
  IF ~es.ok THEN es
  ELSE [ok |-> TRUE, sd |-> [rb |-> b[1] \div 128 = 1, uc |-> (b[1] \div 64) % 2 = 1, fl |-> b[1] % 64, es |-> es.es, opts |-> os.opts],
        rest |-> SubSeq(b, po + 4 + ol, Len(b))]
EncSD(d) ==
  LET eb == Flat([i \in DOMAIN d.es |-> EncEntry(d.es[i])])
      ob == Flat([i \in DOMAIN d.opts |-> EncOption(d.opts[i])])
  IN <<(IF d.rb THEN 128 ELSE 0) + (IF d.uc THEN 64 ELSE 0) + d.fl, 0, 0, 0>> \o Enc32(Len(eb)) \o eb \o Enc32(Len(ob)) \o ob

\* option resolution: every entry gets exactly its own two runs
Resolved(e, opts) == [ty |-> e.ty, sid |-> e.sid, iid |-> e.iid, maj |-> e.maj, ttl |-> e.ttl, v |-> e.v,
                      o1 |-> SubSeq(opts, e.oi1 + 1, e.oi1 + e.no1), o2 |-> SubSeq(opts, e.oi2 + 1, e.oi2 + e.no2)]
Resolve(d) == [rb |-> d.rb, uc |-> d.uc, fl |-> d.fl, es |-> [i \in DOMAIN d.es |-> Resolved(d.es[i], d.opts)]]

\* encoding is specified as a RELATION: any layout that resolves back to the message is valid (C02)
ValidLayout(msg, b) == LET d == DecSD(b) IN d.ok /\ d.rest = <<>> /\ Resolve(d.sd) = msg
\* sufficient conditions used as must-succeed / must-fail bounds (DESIGN §9)
FieldsFit(e) == e.sid < 65536 /\ e.iid < 65536 /\ e.maj < 256 /\ e.ttl < 16777216 /\ e.v[1] < 65536 /\ e.v[2] < 65536
                /\ (e.ty \in {6, 7} => e.v[1] < 16)
RunsFit(e) == Len(e.o1) <= 15 /\ Len(e.o2) <= 15
RECURSIVE TotalOpts(_)
TotalOpts(es) == IF es = <<>> THEN 0 ELSE Len(Head(es).o1) + Len(Head(es).o2) + TotalOpts(Tail(es))
SurelyRepresentable(msg) == (\A i \in DOMAIN msg.es : FieldsFit(msg.es[i]) /\ RunsFit(msg.es[i])) /\ TotalOpts(msg.es) <= 255
SurelyNot(msg) == \E i \in DOMAIN msg.es : ~FieldsFit(msg.es[i]) \/ ~RunsFit(msg.es[i])

-----------------------------------------------------------------------------
(* --------------- verdicts on recorded calls of the implementation --------- *)
\* Every record has  op  and the observed  out \in {"ok", "parse", "unicode", "struct", "value", "other:<type>"}.
Cat(d) == IF d.ok THEN "ok" ELSE IF d.why = "unicode" THEN "unicode" ELSE "parse"

\* C01 ---------------------------------------------------------------------------------------
MsgVerdict(r) ==
  CASE r.op = "build" ->    \* r.msg, r.bytes
         IF r.out # "ok" THEN "build_failed_for_a_message_within_the_field_widths"
         ELSE IF r.bytes # EncMsg(r.msg) THEN "bytes_differ_from_the_wire_layout" ELSE ""
    [] r.op = "parse" ->    \* r.input, r.out, r.msg, r.rest
         LET d == DecMsg(r.input) IN
         IF Cat(d) # r.out THEN "decoder_outcome_differs:" \o Cat(d)
         ELSE IF ~d.ok THEN ""
         ELSE IF r.msg # d.msg THEN "decoded_message_differs" ELSE IF r.rest # d.rest THEN "rest_differs" ELSE ""
    [] r.op = "dgram" ->    \* r.input, r.msgs (as delivered to message_received)
         IF r.out # "ok" THEN "datagram_received_raised"
         ELSE IF r.msgs # DecAll(r.input).msgs THEN "delivered_messages_differ"
         \* (a datagram the library itself put together from several messages: it is the concatenation of their encodings)
         ELSE IF "sent" \in DOMAIN r /\ (r.sent # r.msgs \/ DecAll(r.input).err # "") THEN "datagram_is_not_the_concatenation_of_its_messages"
         ELSE ""

\* C02 ---------------------------------------------------------------------------------------
SDBuildVerdict(r) ==        \* r.msg (resolved), r.out, r.bytes, r.fits (every numeric field of the original inside its width),
                            \* r.backout / r.back: outcome and result of the library's own parse + resolve_options on r.bytes
  IF r.out = "ok"
  THEN IF ValidLayout(r.msg, r.bytes)
       THEN IF r.backout # "ok" THEN "library_cannot_decode_its_own_encoding:" \o r.backout
            ELSE IF r.back # r.msg THEN "decoding_and_resolution_do_not_give_the_message_back" ELSE ""
       ELSE IF SurelyNot(r.msg) THEN "bytes_emitted_for_an_unrepresentable_message"
       ELSE "layout_does_not_resolve_to_the_message"
  ELSE IF r.fits /\ SurelyRepresentable(r.msg) THEN "error_for_a_representable_message:" \o r.out
  ELSE ""

\* C03 (decoder half) and C20 ----------------------------------------------------------------
DecodeAny(kind, b, n) ==
  CASE kind = "msg"    -> DecMsg(b)
    [] kind = "sd"     -> DecSD(b)
    [] kind = "option" -> DecOption(b)
    [] kind = "entry"  -> DecEntry(b, n)
ValueOf(kind, d) == CASE kind = "msg" -> d.msg [] kind = "sd" -> d.sd [] kind = "option" -> d.opt [] kind = "entry" -> d.e
DecodeVerdict(r) ==         \* r.kind, r.input, r.n (options available, entries only), r.out, r.value, r.rest
  IF r.out \notin {"ok", "parse", "unicode"} THEN "foreign_exception:" \o r.out
  ELSE LET d == DecodeAny(r.kind, r.input, r.n) IN
       IF r.out = "unicode" /\ Cat(d) # "unicode" THEN "unicode_error_without_non_ascii_config_text"
       ELSE IF Cat(d) # r.out THEN "acceptance_differs:" \o Cat(d)          \* (reported as drift, not as violation)
       ELSE IF ~d.ok THEN ""
       ELSE IF r.rest # d.rest THEN "rest_is_not_the_unconsumed_suffix"
       ELSE IF r.value # ValueOf(r.kind, d) THEN "decoded_value_differs" ELSE ""

EncodeAny(kind, v) == CASE kind = "msg" -> EncMsg(v) [] kind = "sd" -> EncSD(v) [] kind = "option" -> EncOption(v) [] kind = "entry" -> EncEntry(v)
CanonVerdict(r) ==          \* r.kind, r.input, r.n, r.out (= "ok"), r.value, r.rest, r.out2 (outcome of build), r.bytes2, r.out3, r.value3, r.rest3
  \* judged on the implementation's OWN first decode (r.value): whatever it accepts must survive the cycle;
  \* where the TLA+ decoder accepts too, its value is the reference for the re-encoded bytes as well
  LET d == DecodeAny(r.kind, r.input, r.n) IN
  IF r.out2 # "ok" THEN "decoded_value_cannot_be_encoded:" \o r.out2
  ELSE IF r.out3 # "ok" THEN "re-encoded_bytes_do_not_decode:" \o r.out3
  ELSE IF r.rest3 # <<>> THEN "re-encoded_bytes_leave_a_rest"
  ELSE IF r.value3 # r.value THEN "second_decode_differs_from_first"
  ELSE IF r.kind = "msg" /\ r.bytes2 # SubSeq(r.input, 1, Len(r.input) - Len(r.rest)) THEN "re-encoded_message_differs_from_consumed_input"
  ELSE IF ~d.ok THEN ""
  ELSE LET d2 == DecodeAny(r.kind, r.bytes2, r.n) IN
       IF ~d2.ok \/ ValueOf(r.kind, d2) # ValueOf(r.kind, d) THEN "re-encoded_bytes_decode_differently_(spec_decoder)" ELSE ""

\* C03 (live endpoint half): twin runs -------------------------------------------------------------
\* r.a: observable trace (outputs, idle markers, state probe) of a run with the rejected datagram
\* inserted; r.b: the same run without it (or, for a cleared unicast flag, with the entries removed)
TwinVerdict(r) ==
  IF r.exc # <<>> THEN "exception_escaped_the_receive_path"
  ELSE IF r.a = r.b THEN ""
  ELSE IF Len(r.a) # Len(r.b) THEN "rejected_datagram_changed_the_number_of_observable_events"
  ELSE "rejected_datagram_changed_event_" \o ToString(CHOOSE i \in DOMAIN r.a : r.a[i] # r.b[i])

\* C18 ---------------------------------------------------------------------------------------
\* results of reading message by message from a stream: <<"msg", m>> ..., then <<"parse">> or <<"incomplete">>
RECURSIVE StreamResults(_)
StreamResults(b) ==
  IF Len(b) < 16 THEN <<<<"incomplete">>>>                 \* also the clean end of the stream
  ELSE IF HeaderError(b) # "" THEN <<<<"parse">>>>
  ELSE LET d == DecMsg(b) IN
       IF ~d.ok THEN <<<<"incomplete">>>>                    \* the stream ends inside the message
       ELSE <<<<"msg", d.msg>>>> \o StreamResults(d.rest)
StreamVerdict(r) ==         \* r.input, r.results
  IF r.results = StreamResults(r.input) THEN ""
  ELSE IF Len(r.results) # Len(StreamResults(r.input)) THEN "number_of_results_differs"
  ELSE "result_" \o ToString(CHOOSE i \in DOMAIN r.results : r.results[i] # StreamResults(r.input)[i]) \o "_differs"
=============================================================================
