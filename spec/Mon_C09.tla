---------------------------- MODULE Mon_C09 ----------------------------
(* Property monitor for C09 -- "TTL expiry fires exactly once, on time, never early; a refresh
   postpones it".  Alphabet (a TimedStore seen from outside):

     in  ts_refresh a key ttl nak (nak: callback_new will refuse a NEW entry, as a listener raising NakSubscription does)
         | ts_stop a key | ts_stopaddr a | ts_stopall | ts_stopmatch keys
     out new a key | gone a key          (callback_new / callback_expired of the store)
     idle, adv d

   Ghost per (address, key): presence and the remaining life of the most recent refresh,
   computed from the inputs alone.  `gone` is accepted only (i) as the report of an explicit
   removal just requested, (ii) exactly when the remaining life has reached 0, or (iii) in the
   same tick as a refresh that arrived at the deadline instant (then `new` must follow: the
   statement accepts both 'expired, then present again' and 'no notification' there).      *)
EXTENDS Naturals, Sequences, FiniteSets, TLC

FOREVER == 16777215
Range(s) == {s[i] : i \in DOMAIN s}

MonInit(cfg) ==
  LET K == Range(cfg.addrs) \X Range(cfg.keys) IN
  [ cfg |-> cfg,
    pres    |-> [k \in K |-> FALSE],
    left    |-> [k \in K |-> 0],
    oweGone |-> [k \in K |-> 0],       \* removal reports still owed for explicit stops
    oweNew  |-> [k \in K |-> FALSE],
    amb     |-> [k \in K |-> FALSE],   \* refreshed at the very deadline tick: one stale expiry tolerated
    bad |-> "", at |-> 0, n |-> 0 ]

Keys(m) == DOMAIN m.pres
Fail(m, clause) == IF m.bad = "" THEN [m EXCEPT !.bad = clause, !.at = m.n] ELSE m

Refresh(m, k, ttl, nak) ==
  IF ~m.pres[k] /\ nak THEN m          \* refused: never recorded, nothing may ever be reported for it
  ELSE IF m.pres[k]
  THEN [m EXCEPT !.amb[k] = (m.left[k] = 0) \/ @, !.left[k] = ttl]
  ELSE [m EXCEPT !.pres[k] = TRUE, !.left[k] = ttl, !.oweNew[k] = TRUE]

StopSet(m, ks) ==
  [m EXCEPT !.pres = [k \in Keys(m) |-> IF k \in ks THEN FALSE ELSE @[k]],
            !.oweGone = [k \in Keys(m) |-> IF k \in ks /\ m.pres[k] THEN @[k] + 1 ELSE @[k]],
            !.amb = [k \in Keys(m) |-> IF k \in ks THEN FALSE ELSE @[k]]]

Gone(m, k) ==
  IF m.oweGone[k] > 0 THEN [m EXCEPT !.oweGone[k] = @ - 1]
  ELSE IF m.pres[k] /\ m.amb[k] THEN [m EXCEPT !.amb[k] = FALSE, !.oweNew[k] = TRUE]
  ELSE IF m.pres[k] /\ m.left[k] = 0 THEN [m EXCEPT !.pres[k] = FALSE]
  ELSE IF m.pres[k] THEN Fail(m, "gone_before_deadline")
  ELSE Fail(m, "gone_for_absent_entry")

New(m, k) == IF m.oweNew[k] THEN [m EXCEPT !.oweNew[k] = FALSE] ELSE Fail(m, "new_without_cause")

Idle(m) ==
  IF \E k \in Keys(m) : m.oweGone[k] > 0 THEN Fail(m, "removal_not_reported")
  ELSE IF \E k \in Keys(m) : m.oweNew[k] THEN Fail(m, "new_not_reported")
  ELSE IF \E k \in Keys(m) : m.pres[k] /\ m.left[k] = 0 /\ ~m.amb[k] THEN Fail(m, "expiry_not_reported_at_deadline")
  ELSE m

Adv(m, d) ==
  LET m1 == IF \E k \in Keys(m) : m.pres[k] /\ m.left[k] # FOREVER /\ m.left[k] < d
            THEN Fail(m, "deadline_passed_unreported") ELSE m
  IN [m1 EXCEPT !.left = [k \in Keys(m) |-> IF @[k] = FOREVER THEN FOREVER ELSE IF @[k] > d THEN @[k] - d ELSE 0],
                !.amb = [k \in Keys(m) |-> FALSE]]

Known(m, e) == e.a \in Range(m.cfg.addrs) /\ e.key \in Range(m.cfg.keys)

MonStep(m0, e) ==
  LET m == [m0 EXCEPT !.n = @ + 1] IN
  CASE e.k = "in" /\ e.op = "ts_refresh"   -> Refresh(m, <<e.a, e.key>>, e.ttl, "nak" \in DOMAIN e /\ e.nak)
    [] e.k = "in" /\ e.op = "ts_stop"      -> StopSet(m, {<<e.a, e.key>>})
    [] e.k = "in" /\ e.op = "ts_stopaddr"  -> StopSet(m, {k \in Keys(m) : k[1] = e.a})
    [] e.k = "in" /\ e.op = "ts_stopall"   -> StopSet(m, Keys(m))
    [] e.k = "in" /\ e.op = "ts_stopmatch" -> StopSet(m, {k \in Keys(m) : k[2] \in Range(e.keys)})
    [] e.k = "out" /\ e.op = "gone" -> IF Known(m, e) THEN Gone(m, <<e.a, e.key>>) ELSE Fail(m, "unknown_identity")
    [] e.k = "out" /\ e.op = "new"  -> IF Known(m, e) THEN New(m, <<e.a, e.key>>) ELSE Fail(m, "unknown_identity")
    [] e.k = "idle" -> Idle(m)
    [] e.k = "adv"  -> Adv(m, e.d)
    [] e.k = "exc"  -> Fail(m, "exception")
    [] OTHER -> m
=============================================================================
