------------------------------ MODULE MC_C04 ------------------------------
(* Mode 1 for C04: the two-stack system SD2.tla composed with the property monitor Mon_C04.  Exhaustive over every
   placement of up to MaxFaults disturbance steps of the kinds in Kinds inside the fault window, every interleaving
   of the two event loops (Sched = "any") and every order of simultaneously due timers.                          *)
EXTENDS SD2Configs
CONSTANT MCfg            \* configuration of the monitor: [bound, needAlive]
M == INSTANCE Mon_C04
VARIABLE mon
mcvars == <<vars2, mon>>

RECURSIVE Fold(_, _)
Fold(m, es) == IF es = <<>> THEN m ELSE Fold(M!MonStep(m, Head(es)), Tail(es))
MCInit == Init2 /\ mon = M!MonInit(MCfg)
MCNext == Next2 /\ mon' = Fold(mon, obs')
MCSpec == MCInit /\ [][MCNext]_mcvars
View   == <<nd, up, net, lossy, pf, nf, clk, fresh, [mon EXCEPT !.n = 0, !.at = 0]>>
MonOK  == mon.bad = ""
\* non-vacuity: the system does converge (reach a state in which both listeners report the established state)
NeverConverges == ~(mon.lastW = "offered" /\ mon.lastS = "subscribed" /\ nf = MaxFaults)
\* non-vacuity of the two-subscription configuration: the withdrawal does happen
NeverUnfind == ~(\E i \in DOMAIN obs : obs[i].k = "in" /\ obs[i].op = "fault" /\ obs[i].kind = "unfind")
=============================================================================
